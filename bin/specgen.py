"""Spec builders shared by the checks (OpenAPI 3.1 documents as python dicts)."""
import copy

PET = {"type": "object", "required": ["name"], "properties": {"name": {"type": "string"}, "tag": {"type": "string"}}}
ERR = {"type": "object", "properties": {"m": {"type": "string"}}}


def base_spec():
    return {"openapi": "3.1.0", "info": {"title": "t", "version": "1"}, "paths": {}, "components": {"schemas": {"Pet": copy.deepcopy(PET), "Err": copy.deepcopy(ERR)}}}


def schema_of(kind):
    if kind is None:
        return None
    if kind.startswith("ref:"):
        return {"$ref": "#/components/schemas/" + kind[4:]}
    return {"type": kind}


def resp_spec(responses, method="get", path="/op", opid="op"):
    """responses: [[key, [[content_type, kind], …]], …] -> spec with one operation."""
    s = base_spec()
    rs = {}
    for key, medias in responses:
        r = {"description": "d" + key}
        if medias:
            r["content"] = {}
            for ct, kind in medias:
                m = {}
                sch = schema_of(kind)
                if sch is not None:
                    m["schema"] = sch
                r["content"][ct] = m
        rs[key] = r
    s["paths"][path] = {method: {"operationId": opid, "responses": rs}}
    return s


def param_schema(t):
    if t == "array":
        return {"type": "array", "items": {"type": "string"}}
    if t == "intarray":
        return {"type": "array", "items": {"type": "integer"}}
    if t == "enum":
        return {"type": "string", "enum": ["a", "b"]}
    return {"type": t}


def op_spec(d):
    """d: {method, path, params:[{name,in,level,type,required,style?,explode?}], body:{ct,kind,required}|None, responses?}"""
    s = base_spec()
    op = {"operationId": d.get("opid", "op"), "responses": {"200": {"description": "ok"}}}
    item = {}
    for p in d.get("params", []):
        o = {"name": p["name"], "in": p["in"], "schema": param_schema(p.get("type", "string"))}
        if p.get("type") == "noschema":
            # described by `content` instead of `schema`: the generator types it `Option<String>`
            del o["schema"]
            o["content"] = {"application/json": {"schema": {"type": "object"}}}
        if p.get("required") or p["in"] == "path":
            o["required"] = True
        for k in ("style", "explode"):
            if p.get(k) is not None:
                o[k] = p[k]
        if p.get("level") == "path":
            item.setdefault("parameters", []).append(o)
        else:
            op.setdefault("parameters", []).append(o)
    b = d.get("body")
    if b:
        content = {}
        for ct, kind in b["content"]:
            m = {}
            sch = schema_of(kind)
            if sch is not None:
                m["schema"] = sch
            content[ct] = m
        op["requestBody"] = {"content": content}
        if b.get("required"):
            op["requestBody"]["required"] = True
    if d.get("responses") is not None:
        op["responses"] = d["responses"]
    item[d["method"]] = op
    s["paths"][d["path"]] = item
    return s


def ops_spec(ops):
    """several operations (each as in op_spec, plus `opid` and `responses` as [[key,[[ct,kind]]]])."""
    s = base_spec()
    for d in ops:
        d2 = dict(d)
        if isinstance(d.get("responses"), list):
            d2["responses"] = resp_spec(d["responses"])["paths"]["/op"]["get"]["responses"] or {"200": {"description": "ok"}}
        one = op_spec(d2)
        for path, item in one["paths"].items():
            tgt = s["paths"].setdefault(path, {})
            for k, v in item.items():
                if k == "parameters":
                    for p in v:
                        if p not in tgt.setdefault("parameters", []):
                            tgt["parameters"].append(p)
                else:
                    tgt[k] = v
    return s


# ---- C17: one struct `T` with the member under test (`mem`) and an optional sibling (`z`) ----
def dflt_member_schema(m):
    """m: {kind:{scalar:{ty,format?}}|{enum:[..]}|{object:[..]}, ref?, array?, nullable?, default?, const?, enum1?}"""
    k = m["kind"]
    if "scalar" in k:
        sch = {"type": k["scalar"]["ty"]}
        if k["scalar"].get("format"):
            sch["format"] = k["scalar"]["format"]
    elif "enum" in k:
        # ref = True: `allOf: [$ref]` (keywords next to it are kept); ref = "bare": a plain `$ref` with SIBLING keywords
        sch = {"$ref": "#/components/schemas/Color"} if m.get("ref") == "bare" else {"allOf": [{"$ref": "#/components/schemas/Color"}]} if m.get("ref") else {"type": "string", "enum": list(k["enum"])}
    elif "object" in k:
        sch = {"type": "object", "properties": {key: {"type": "string"} for key in k["object"]}}
    else:
        raise ValueError("kind")
    if m.get("array"):
        sch = {"type": "array", "items": sch}
    if m.get("nullable"):
        if not isinstance(sch.get("type"), str):
            raise ValueError("nullable needs a plain type")
        sch["type"] = [sch["type"], "null"]
    for key in ("default", "const"):
        if key in m:
            sch[key] = m[key]
    if "enum1" in m:
        sch["enum"] = [m["enum1"]]
    return sch


def dflt_custom_name(m):
    k = m["kind"]
    if "enum" in k:
        return "Color" if m.get("ref") else "TMem"
    if "object" in k:
        return "TMem"
    return ""


def dflt_spec(m):
    s = {"openapi": "3.1.0", "info": {"title": "t", "version": "1"}, "paths": {}, "components": {"schemas": {}}}
    t = {"type": "object", "properties": {"mem": dflt_member_schema(m), "z": {"type": "string"}}}
    if m.get("required"):
        t["required"] = ["mem"]
    if m.get("deny"):
        t["additionalProperties"] = False
    s["components"]["schemas"]["T"] = t
    if "enum" in m["kind"] and m.get("ref"):
        s["components"]["schemas"]["Color"] = {"type": "string", "enum": list(m["kind"]["enum"])}
    ref = {"$ref": "#/components/schemas/T"}
    s["paths"]["/t"] = {"post": {"operationId": "putT", "requestBody": {"required": True, "content": {"application/json": {"schema": ref}}},
                                 "responses": {"200": {"description": "ok", "content": {"application/json": {"schema": ref}}}}}}
    return s
def enum_spec(values, shape, nullpos=0):
    """C15: one value list declared as schema `E` in one of three shapes, referenced by `Holder`, which is
    both a request and a response body (so the enum gets Serialize and Deserialize).
    shape: plain | nullable (type [string,null], JSON null inserted at index nullpos) | open (anyOf known + free string)."""
    ref = lambda n: {"$ref": "#/components/schemas/" + n}
    if shape == "plain":
        e = {"type": "string", "enum": list(values)}
    elif shape == "nullable":
        vs = list(values)
        vs.insert(min(nullpos, len(vs)), None)
        e = {"type": ["string", "null"], "enum": vs}
    elif shape == "open":
        e = {"anyOf": [{"type": "string", "enum": list(values)}, {"type": "string"}]}
    else:
        raise ValueError(shape)
    holder = {"type": "object", "required": ["e"], "properties": {"e": ref("E"), "l": {"type": "array", "items": ref("E")}}}
    body = {"content": {"application/json": {"schema": ref("Holder")}}}
    return {"openapi": "3.1.0", "info": {"title": "t", "version": "1"},
            "paths": {"/op": {"post": {"operationId": "op", "requestBody": dict(body, required=True),
                                       "responses": {"200": dict(body, description="ok")}}}},
            "components": {"schemas": {"E": e, "Holder": holder}}}
# ---- C13: type sharing -------------------------------------------------------------------------
SHARE_POOL = {
    "A": {"type": "object", "required": ["kind"], "properties": {"kind": {"type": "string"}, "x": {"type": "string"}}},
    "B": {"type": "object", "required": ["kind"], "properties": {"kind": {"type": "string"}, "y": {"type": "integer"}}},
    "C": {"type": "object", "required": ["kind"], "properties": {"kind": {"type": "string"}, "z": {"type": "boolean"}}},
}


def share_spec(occs, extra=None):
    """occs: [{"site": {"kind":"named","name":N} | {"kind":"prop"|"items","holder":H,"prop":p}, "schema": S}]
    -> one OpenAPI document with the fixed pool A,B,C, the named occurrences, and holder objects."""
    s = {"openapi": "3.1.0", "info": {"title": "t", "version": "1"}, "paths": {}, "components": {"schemas": copy.deepcopy(SHARE_POOL)}}
    sch = s["components"]["schemas"]
    for o in occs:
        site = o["site"]
        if site["kind"] == "named":
            if site["name"] in sch:
                raise ValueError("duplicate name")
            sch[site["name"]] = copy.deepcopy(o["schema"])
        else:
            h = sch.setdefault(site["holder"], {"type": "object", "properties": {}})
            if site["prop"] in h["properties"]:
                raise ValueError("duplicate site")
            body = copy.deepcopy(o["schema"])
            h["properties"][site["prop"]] = body if site["kind"] == "prop" else {"type": "array", "items": body}
    if extra:
        if extra["name"] in sch:
            raise ValueError("duplicate name")
        sch[extra["name"]] = copy.deepcopy(extra["schema"])
    return s


def multi_resp_spec(ops):
    """ops: [{"opid","path","responses":[[key,[[ct,kind]…]]…], "desc"?: str}] -> one document"""
    s = base_spec()
    for o in ops:
        one = resp_spec(o["responses"], path=o["path"], opid=o["opid"])
        item = one["paths"][o["path"]]
        if o.get("desc"):
            for r in item["get"]["responses"].values():
                r["description"] = o["desc"]
        s["paths"][o["path"]] = item
    return s
# ---------------------------------------------------------------------------------------------
# C14: discriminator configurations
def _ref(n):
    return {"$ref": "#/components/schemas/" + n}


def _tagprop(tp):
    """tp: ["plain"] | ["const", v] | ["enum", [v…]] | ["ref", schemaName]"""
    k = tp[0]
    if k == "plain":
        return {"type": "string"}
    if k == "const":
        return {"type": "string", "const": tp[1]}
    if k == "enum":
        return {"type": "string", "enum": list(tp[1])}
    if k == "ref":
        return _ref(tp[1])
    raise ValueError(k)


def own_field(name):
    return "f" + "".join(c for c in name.lower() if c.isalnum())


def disc_spec(d):
    """d: {"schemas":[…], "ops":[{"id","uses"}]}  (primary data of a C14 case) -> OpenAPI 3.1 document.
    schema kinds:
      {"k":"leaf","name", "tagname"?, "tag"?: tagprop, "tagreq"?:bool, "ownreq"?:bool, "apfalse"?:bool,
       "parents"?:[names], "form"?: "inline"|"own"}
      {"k":"union","name","kind":"oneOf"|"anyOf","members":[names],"disc":{"prop","mapping":None|[[tag,target]…]}}
      {"k":"base","name","tag"?: tagprop,"disc":{"prop","mapping":[[tag,target]…]}}
      {"k":"strenum","name","values":[…]}
    raises ValueError when a reference dangles (shrinking may produce that)."""
    names = [s["name"] for s in d["schemas"]]
    if len(set(names)) != len(names):
        raise ValueError("duplicate schema name")

    def need(n):
        if n not in names:
            raise ValueError("dangling " + n)
        return n

    S = {}
    for s in d["schemas"]:
        n, k = s["name"], s["k"]
        if k == "leaf":
            props, req = {}, []
            if s.get("tag") is not None:
                if s["tag"][0] == "ref":
                    need(s["tag"][1])
                props[s["tagname"]] = _tagprop(s["tag"])
                if s.get("tagreq", True):
                    req.append(s["tagname"])
            props[own_field(n)] = {"type": "integer"}
            if s.get("ownreq"):
                req.append(own_field(n))
            o = {"type": "object", "properties": props}
            if req:
                o["required"] = req
            if s.get("apfalse"):
                o["additionalProperties"] = False
            if s.get("parents"):
                refs = [_ref(need(p)) for p in s["parents"]]
                if s.get("form", "inline") == "inline":
                    o = {"allOf": refs + [o]}
                else:
                    o = dict(o, allOf=refs)
            S[n] = o
        elif k == "union":
            if not s["members"]:
                raise ValueError("empty union")
            o = {s["kind"]: [_ref(need(m)) for m in s["members"]]}
            dd = {"propertyName": s["disc"]["prop"]}
            if s["disc"].get("mapping") is not None:
                dd["mapping"] = {t: "#/components/schemas/" + need(x) for t, x in s["disc"]["mapping"]}
            o["discriminator"] = dd
            S[n] = o
        elif k == "base":
            p = s["disc"]["prop"]
            S[n] = {"type": "object", "required": [p], "properties": {p: _tagprop(s.get("tag") or ["plain"]), own_field(n): {"type": "integer"}},
                    "discriminator": {"propertyName": p, "mapping": {t: "#/components/schemas/" + need(x) for t, x in s["disc"]["mapping"]}}}
        elif k == "strenum":
            S[n] = {"type": "string", "enum": list(s["values"])}
        else:
            raise ValueError(k)
    paths = {}
    for i, op in enumerate(d["ops"]):
        o = {"operationId": op["id"], "responses": {"200": {"description": "d"}}}
        if op.get("uses"):
            need(op["uses"])
            o["requestBody"] = {"content": {"application/json": {"schema": _ref(op["uses"])}}}
            o["responses"]["200"]["content"] = {"application/json": {"schema": _ref(op["uses"])}}
        paths["/p%d" % i] = {"post": o}
    return {"openapi": "3.1.0", "info": {"title": "t", "version": "1"}, "paths": paths, "components": {"schemas": S}}
# ---------------------------------------------------------------------------------------------
# C14 (use sites): WHERE and HOW a discriminated union is written.
def site_union(st):
    """the OpenAPI schema written at one use site.
    st: {"kind":"oneOf"|"anyOf","members":[leaf…],"disc":None|{"prop","mapping":None|[[tag,leaf]…],"on":"inner"|"outer"},
         "arr":bool, "wrap":None|"oneOf"|"anyOf", "typenull":bool}
      plain            {kind:[refs], discriminator}
      typenull         the same with "type":["object","null"]
      arr              {type:array, items: U}
      wrap             {wrap:[U', {type:null}]}   (U' = U or the array); discriminator on U ("inner") or on the wrapper ("outer")"""
    u = {st["kind"]: [_ref(m) for m in st["members"]]}
    dd = None
    if st.get("disc"):
        dd = {"propertyName": st["disc"]["prop"]}
        if st["disc"].get("mapping") is not None:
            dd["mapping"] = {t: "#/components/schemas/" + x for t, x in st["disc"]["mapping"]}
    outer = bool(st.get("wrap")) and bool(dd) and st["disc"].get("on", "inner") == "outer"
    if dd and not outer:
        u["discriminator"] = dd
    if st.get("typenull"):
        u["type"] = ["object", "null"]
    if st.get("arr"):
        u = {"type": "array", "items": u}
    if st.get("wrap"):
        u = {st["wrap"]: [u, {"type": "null"}]}
        if outer:
            u["discriminator"] = dd
    return u


def site_leaf(l):
    """{"name","tagname","tag":tagprop,"tagreq":bool,"ownreq":bool,"alt":None|propname}"""
    props, req = {}, []
    props[l["tagname"]] = _tagprop(l.get("tag") or ["plain"])
    if l.get("tagreq", True):
        req.append(l["tagname"])
    if l.get("alt"):
        props[l["alt"]] = {"type": "string"}
    props[own_field(l["name"])] = {"type": "integer"}
    if l.get("ownreq"):
        req.append(own_field(l["name"]))
    o = {"type": "object", "properties": props}
    if req:
        o["required"] = req
    return o


def site_spec(d):
    """d: {"leaves":[leaf…], "sites":[site…]} -> (OpenAPI 3.1 document, [{"id","at":{…}}…]).
    site = union description (see site_union) + {"id","pos":"named"|"field"|"io","holder","field"?, "req"?}
      named: component `holder` IS the schema;  field: property `field` of the object component `holder`
      (several sites may share a holder);  io: request body AND 200 response of an operation of its own.
    Every holder component is the body and the response of one operation.  raises ValueError on dangling names."""
    S, leaves = {}, set()
    for l in d["leaves"]:
        if l["name"] in S:
            raise ValueError("duplicate leaf")
        S[l["name"]] = site_leaf(l)
        leaves.add(l["name"])
    locs, holders, ios = [], [], []
    for st in d["sites"]:
        if not st["members"] or any(m not in leaves for m in st["members"]):
            raise ValueError("dangling member")
        if st.get("disc") and st["disc"].get("mapping") is not None and any(x not in leaves for _, x in st["disc"]["mapping"]):
            raise ValueError("dangling mapping target")
        sch = site_union(st)
        h = st.get("holder")
        if st["pos"] == "named":
            if h in S:
                raise ValueError("duplicate holder")
            S[h] = sch
            holders.append(h)
            locs.append({"id": st["id"], "at": {"k": "named", "name": h}})
        elif st["pos"] == "field":
            if h in leaves or (h in S and "properties" not in S[h]):
                raise ValueError("holder clash")
            if h not in S:
                S[h] = {"type": "object", "properties": {}}
                holders.append(h)
            if st["field"] in S[h]["properties"]:
                raise ValueError("duplicate field")
            S[h]["properties"][st["field"]] = sch
            if st.get("req"):
                S[h].setdefault("required", []).append(st["field"])
            locs.append({"id": st["id"], "at": {"k": "field", "holder": h, "field": st["field"]}})
        elif st["pos"] == "io":
            ios.append((st, sch))
        else:
            raise ValueError(st["pos"])
    paths, n = {}, 0

    def op(schema):
        nonlocal n
        if n >= 9:
            raise ValueError("too many operations")
        oid = chr(97 + n)
        paths["/p%d" % n] = {"post": {"operationId": oid, "requestBody": {"content": {"application/json": {"schema": schema}}},
                                      "responses": {"200": {"description": "d", "content": {"application/json": {"schema": schema}}}}}}
        n += 1
        return oid
    for h in holders:
        op(_ref(h))
    for st, sch in ios:
        oid = op(sch)
        locs.append({"id": st["id"] + ".b", "at": {"k": "body", "op": oid}})
        locs.append({"id": st["id"] + ".r", "at": {"k": "resp", "op": oid}})
    return ({"openapi": "3.1.0", "info": {"title": "t", "version": "1"}, "paths": paths, "components": {"schemas": S}}, locs)
# ---------------------------------------------------------------------------------------------
# C16: specs of the validation fragment.  desc = {schemas:[{name,fields:[{name,req,s}]}], aliases:[{name,to}],
# params:[{name,in,req,s}], body, resp, echo}; s = {"k":"prim","c":cons} | {"k":"arrP","c":cons,"items":cons} |
# {"k":"arrR","c":cons,"to":name} | {"k":"ref","to":name}; numbers in cons travel as decimal strings.
import re as _re

NUM_KEYS = ("minimum", "maximum", "exclusiveMinimum", "exclusiveMaximum")


def num_json(s):
    return int(s) if _re.fullmatch(r"-?\d+", s) else float(s)


def cons_schema(c):
    if isinstance(c.get("ty"), dict):
        inner = cons_schema(dict(c, ty=c["ty"]["wrap"]))
        return {("anyOf" if c["ty"].get("any", True) else "oneOf"): [inner, {"type": "null"}]}
    o = {}
    for k, v in c.items():
        if v is None:
            continue
        if k == "ty":
            o["type"] = v
        elif k == "enum":
            if v:
                o["enum"] = ["aa", "bb"]
        elif k in NUM_KEYS:
            o[k] = num_json(v)
        else:
            o[k] = v
    return o


def fs_schema(s):
    ref = lambda n: {"$ref": "#/components/schemas/" + n}
    k = s["k"]
    if k == "prim":
        return cons_schema(s["c"])
    if k == "arrP":
        return dict(cons_schema(s["c"]), items=cons_schema(s["items"]))
    if k == "arrR":
        return dict(cons_schema(s["c"]), items=ref(s["to"]))
    if k == "ref":
        return ref(s["to"])
    raise ValueError(k)


def valid_spec(desc):
    ref = lambda n: {"$ref": "#/components/schemas/" + n}
    names = [s["name"] for s in desc["schemas"]]
    if names != sorted(set(names)):
        raise ValueError("schemas must be sorted and distinct")
    comps = {}
    for s in desc["schemas"]:
        fn = [f["name"] for f in s["fields"]]
        if fn != sorted(set(fn)) or not all(_re.fullmatch(r"[a-z][a-z0-9_]*", x) for x in fn):
            raise ValueError("fields must be sorted, distinct snake_case")
        o = {"type": "object", "properties": {f["name"]: fs_schema(f["s"]) for f in s["fields"]}}
        req = [f["name"] for f in s["fields"] if f["req"]]
        if req:
            o["required"] = req
        comps[s["name"]] = o
    for a in desc.get("aliases", []):
        if a["name"] in comps:
            raise ValueError("alias name clash")
        comps[a["name"]] = {"type": "array", "items": ref(a["to"])}
    known = set(comps)
    for s in desc["schemas"]:
        for f in s["fields"]:
            t = f["s"].get("to")
            if t is not None and t not in known:
                raise ValueError("dangling ref")
    params, path = [], "/op"
    pn = [(p["name"], p["in"]) for p in desc.get("params", [])]
    if len(set(pn)) != len(pn):
        raise ValueError("duplicate parameter")
    for p in desc.get("params", []):
        if not _re.fullmatch(r"[a-z][a-z0-9_]*", p["name"]):
            raise ValueError("param name")
        if p["s"]["k"] not in ("prim", "arrP"):
            raise ValueError("param kind")
        o = {"name": p["name"], "in": p["in"], "schema": fs_schema(p["s"])}
        if p["in"] == "path":
            o["required"] = True
            path += "/{%s}" % p["name"]
        elif p["req"]:
            o["required"] = True
        params.append(o)
    op = {"operationId": "op", "responses": {"200": {"description": "ok"}}}
    if params:
        op["parameters"] = params
    for k in ("body", "resp", "echo"):
        if desc.get(k) is not None and desc[k] not in known:
            raise ValueError("dangling " + k)
    if desc.get("body") is not None:
        op["requestBody"] = {"required": True, "content": {"application/json": {"schema": ref(desc["body"])}}}
    if desc.get("resp") is not None:
        op["responses"]["200"]["content"] = {"application/json": {"schema": ref(desc["resp"])}}
    paths = {path: {"post": op}}
    if desc.get("echo") is not None:
        paths["/echo"] = {"get": {"operationId": "echo", "responses": {"200": {"description": "ok", "content": {"application/json": {"schema": ref(desc["echo"])}}}}}}
    # every schema must be reachable from an operation (ReferencedOnly scope drops the others)
    succ = {s["name"]: [f["s"]["to"] for f in s["fields"] if f["s"].get("to")] for s in desc["schemas"]}
    for a in desc.get("aliases", []):
        succ[a["name"]] = [a["to"]]
    seen, todo = set(), [desc.get(k) for k in ("body", "resp", "echo") if desc.get(k)]
    while todo:
        n = todo.pop()
        if n not in seen:
            seen.add(n)
            todo += succ.get(n, [])
    if seen != known:
        raise ValueError("unreachable schema")
    return {"openapi": "3.1.0", "info": {"title": "t", "version": "1"}, "paths": paths, "components": {"schemas": comps}}


# ---- C09: names the generator derives itself (request / response / parameter structs, inline members) ----
import re as _re

NAME_STYLES = ["pascal", "snake", "camel", "kebab", "dotted", "upper"]
OPNAME_STATUS = ["200", "201", "202", "203", "206", "207", "208", "226"]


def words_of(s):
    """`createPet` / `create_pet` / `create-pet` -> ["create", "pet"]"""
    s = _re.sub(r"([a-z0-9])([A-Z])", r"\1 \2", s)
    return [w.lower() for w in _re.split(r"[^A-Za-z0-9]+", s) if w]


def spell(words, style):
    if style == "pascal":
        return "".join(w.capitalize() for w in words)
    if style == "camel":
        return words[0] + "".join(w.capitalize() for w in words[1:])
    if style == "upper":
        return "_".join(w.upper() for w in words)
    return {"snake": "_", "kebab": "-", "dotted": "."}[style].join(words)


def _obj(members):
    return {"type": "object", "required": members[:1], "properties": {m: {"type": "string"} for m in members}}


def opnames_schema(s):
    if "enum" in s:
        return {"type": "string", "enum": list(s["enum"])}
    if s.get("oneOf"):
        # a union with inline object members (variant structs get derived names)
        return {"oneOf": [dict(_obj(list(m)), title=t) if t else _obj(list(m)) for t, m in s["oneOf"]]}
    o = _obj(list(s["members"]))
    for prop, members in (s.get("inline") or {}).items():
        o["properties"][prop] = _obj(list(members))
    for prop, values in (s.get("inline_enum") or {}).items():
        o["properties"][prop] = {"type": "string", "enum": list(values)}
    return o


def _opnames_operation(o, i, hook=False):
    ref = lambda k: {"$ref": "#/components/schemas/" + k}
    op = {"operationId": o["id"]} if o.get("id") is not None else {}
    params = [{"name": n, "in": "query", "schema": {"type": "string"}} for n in o.get("q") or []]
    params += [{"name": n, "in": "header", "schema": {"type": "string"}} for n in o.get("h") or []]
    params += [{"name": n, "in": "path", "required": True, "schema": {"type": "string"}} for n in _re.findall(r"\{([^}]*)\}", o.get("p") or "")]
    if params:
        op["parameters"] = params
    body = o.get("body")
    if body is not None:
        sch = _obj(["b%d" % i, "note"]) if body == "inline" else ref(body)
        op["requestBody"] = {"required": True, "content": {"application/json": {"schema": sch}}}
    resp = o.get("resp")
    status = o.get("status") or OPNAME_STATUS[i % len(OPNAME_STATUS)]
    if resp is None:
        op["responses"] = {status: {"description": "done"}}
    else:
        sch = _obj(["r%d" % i, "text"]) if resp == "inline" else ({"type": "array", "items": ref(resp[4:])} if resp.startswith("arr:") else ref(resp))
        op["responses"] = {status: {"description": "ok", "content": {"application/json": {"schema": sch}}}}
    return op


def opnames_spec(d):
    """d["ops"]: HTTP operations {id, m, p, q, h, body, resp}; d["hooks"]: webhook operations {id, name, m, h, body,
    resp}; d["schemas"]: component schemas {key, members | enum, inline, inline_enum, oneOf}.  Every operation gets
    a status code of its own, so no two operations have the same response signature."""
    spec = {"openapi": "3.1.0", "info": {"title": "t", "version": "1"}, "paths": {}, "components": {"schemas": {}}}
    for s in d.get("schemas") or []:
        spec["components"]["schemas"][s["key"]] = opnames_schema(s)
    i = 0
    for o in d.get("ops") or []:
        spec["paths"].setdefault(o["p"], {})[o.get("m", "get")] = _opnames_operation(o, i)
        i += 1
    hooks = {}
    for o in d.get("hooks") or []:
        hooks.setdefault(o["name"], {})[o.get("m", "post")] = _opnames_operation(o, i, hook=True)
        i += 1
    if hooks:
        spec["webhooks"] = hooks
    return spec


def opnames_entities(d):
    """what the judge must find again in the emitted code: every component schema with its own members, and
    every inline member type of a component schema (reached through the parent's field)"""
    ents = {"schemas": [], "inline": []}
    for s in d.get("schemas") or []:
        if "enum" in s:
            ents["schemas"].append({"key": s["key"], "kind": "enum", "members": len(s["enum"])})
        elif s.get("oneOf"):
            ents["schemas"].append({"key": s["key"], "kind": "enum", "members": len(s["oneOf"])})
            for t, members in s["oneOf"]:
                if t:
                    # the variant struct of a titled inline member, reached through the variant of that title
                    ents["inline"].append({"parent": s["key"], "prop": t, "kind": "struct", "fields": sorted(members)})
        else:
            names = list(s["members"]) + list(s.get("inline") or {}) + list(s.get("inline_enum") or {})
            ents["schemas"].append({"key": s["key"], "kind": "struct", "fields": sorted(names)})
            for prop, members in (s.get("inline") or {}).items():
                ents["inline"].append({"parent": s["key"], "prop": prop, "kind": "struct", "fields": sorted(members)})
            for prop, values in (s.get("inline_enum") or {}).items():
                ents["inline"].append({"parent": s["key"], "prop": prop, "kind": "enum", "members": len(values)})
    ents["ops"] = []
    rf = lambda n: _re.sub(r"[^a-z0-9]+", "_", n.lower()).strip("_")
    for o, hook in [(o, False) for o in d.get("ops") or []] + [(o, True) for o in d.get("hooks") or []]:
        pathp = [] if hook else _re.findall(r"\{([^}]*)\}", o.get("p") or "")
        e = {"method": o.get("m", "post" if hook else "get").upper(), "path": ("webhooks/" + o["name"]) if hook else o["p"],
             "query": sorted(rf(n) for n in o.get("q") or []), "header": sorted(rf(n) for n in o.get("h") or []), "path_": sorted(rf(n) for n in pathp)}
        e["main"] = [k for k in ("query", "header") if e[k]] + (["path"] if pathp else []) + (["body"] if o.get("body") is not None else [])
        ents["ops"].append(e)
    return ents


# ---- C13: a pool whose members carry `const` tags, plus a named discriminated union WITHOUT mapping over all of
# them (registers the members in the discriminator cache: every other mapping-less discriminator over a subset gets
# an implicit mapping and becomes a TAGGED enum, while the same refs without discriminator stay untagged) ----
ANIMAL_POOL = {
    "Cat": {"type": "object", "required": ["kind"], "properties": {"kind": {"type": "string", "const": "cat"}, "lives": {"type": "integer"}}},
    "Dog": {"type": "object", "required": ["kind"], "properties": {"kind": {"type": "string", "const": "dog"}, "bark": {"type": "string"}}},
    "Bird": {"type": "object", "required": ["kind"], "properties": {"kind": {"type": "string", "const": "bird"}, "wingspan": {"type": "number"}}},
    "Animal": {"oneOf": [{"$ref": "#/components/schemas/Cat"}, {"$ref": "#/components/schemas/Dog"}, {"$ref": "#/components/schemas/Bird"}], "discriminator": {"propertyName": "kind"}},
}
SHARE_POOLS = {"abc": SHARE_POOL, "animals": ANIMAL_POOL}


def share_spec_pool(occs, extra=None, pool="abc"):
    """share_spec over another fixed pool of component schemas"""
    s = share_spec(occs, extra)
    sch = s["components"]["schemas"]
    for k in SHARE_POOL:
        if not any(o["site"].get("name") == k for o in occs) and not (extra and extra.get("name") == k):
            sch.pop(k, None)
    for k, v in SHARE_POOLS[pool].items():
        if k in sch:
            raise ValueError("duplicate name")
        sch[k] = copy.deepcopy(v)
    return s
# ---- C17: documents with several sites (component structs, inline objects, parameter structs) under a usage / target ----
def _dflt_obj_schema(fields, deny=False, ann=None):
    """object schema of a site: direct members (k = m) and inline object members (k = obj, plain or as array items)"""
    o = {"type": "object", "properties": {}}
    req = []
    for f in fields:
        if f["k"] == "m":
            sch = dflt_member_schema(f["m"])
            for k, v in (f.get("mann") or {}).items():
                sch[k] = v
            if f["m"].get("required"):
                req.append(f["name"])
        elif f["k"] == "obj":
            sch = _dflt_obj_schema(f["fields"], f.get("deny"), f.get("ann"))
            if f.get("wrap") == "array":
                sch = {"type": "array", "items": sch}
            if f.get("required"):
                req.append(f["name"])
        else:
            raise ValueError("field kind")
        o["properties"][f["name"]] = sch
    if req:
        o["required"] = req
    if deny:
        o["additionalProperties"] = False
    for k, v in (ann or {}).items():
        o[k] = v
    return o


def dflt_doc_spec(d):
    """d: {comps:[{name, usage: req|resp|both|none, deny?, fields:[F]}], params:[{name, loc: query|header, m}], mode, builders}
    every component gets its own operation `op<Name>` (POST /<name>) that uses it as the usage says; the parameters
    belong to one more operation `pq`."""
    s = {"openapi": "3.1.0", "info": {"title": "t", "version": "1"}, "paths": {}, "components": {"schemas": {}}}
    ref = lambda n: {"$ref": "#/components/schemas/" + n}
    names = [c["name"] for c in d.get("comps", [])]
    if len(set(names)) != len(names):
        raise ValueError("duplicate component")
    for c in d.get("comps", []):
        fn = [f["name"] for f in c["fields"]]
        if len(set(fn)) != len(fn):
            raise ValueError("duplicate member")
        s["components"]["schemas"][c["name"]] = _dflt_obj_schema(c["fields"], c.get("deny"), c.get("ann"))
        for f in c["fields"]:
            if f["k"] == "m" and "enum" in f["m"]["kind"] and f["m"].get("ref"):
                s["components"]["schemas"]["Color"] = {"type": "string", "enum": list(f["m"]["kind"]["enum"])}
        u = c["usage"]
        if u == "none":
            continue
        op = {"operationId": "op" + c["name"], "responses": {"200": {"description": "ok"}}}
        if u in ("req", "both"):
            op["requestBody"] = {"required": True, "content": {"application/json": {"schema": ref(c["name"])}}}
        if u in ("resp", "both"):
            op["responses"]["200"]["content"] = {"application/json": {"schema": ref(c["name"])}}
        if u not in ("req", "resp", "both"):
            raise ValueError("usage")
        s["paths"]["/" + c["name"].lower()] = {"post": op}
    ps = d.get("params") or []
    if ps:
        params = []
        for p in ps:
            if p["loc"] not in ("query", "header"):
                raise ValueError("param loc")
            o = {"name": p["name"], "in": p["loc"], "schema": dflt_member_schema(p["m"])}
            if p["m"].get("required"):
                o["required"] = True
            params.append(o)
        if len({(p["name"], p["loc"]) for p in ps}) != len(ps):
            raise ValueError("duplicate parameter")
        s["paths"]["/pq"] = {"get": {"operationId": "pq", "parameters": params, "responses": {"200": {"description": "ok"}}}}
    if not s["paths"] and not any(c["usage"] == "none" for c in d.get("comps", [])):
        raise ValueError("empty document")
    return s


def dflt_doc_sites(d):
    """the sites of a document in walk order: [{at:[struct, field…], kind: schema|query|header, comp, fields:[F(k=m)…]}]"""
    out = []
    for c in d.get("comps", []):
        out.append({"at": [c["name"]], "kind": "schema", "comp": c["name"], "inline": False,
                    "fields": [f for f in c["fields"] if f["k"] == "m"], "deny": bool(c.get("deny")), "ann": c.get("ann") or {}})
        for f in c["fields"]:
            if f["k"] == "obj":
                if any(g["k"] != "m" for g in f["fields"]):
                    raise ValueError("inline objects hold direct members only")
                out.append({"at": [c["name"], f["name"]], "kind": "schema", "comp": c["name"], "inline": True,
                            "fields": f["fields"], "deny": bool(f.get("deny")), "ann": f.get("ann") or {}})
    for loc in ("query", "header"):
        ps = [p for p in (d.get("params") or []) if p["loc"] == loc]
        if ps:
            out.append({"at": ["PqRequest", loc], "kind": loc, "comp": None, "inline": False,
                        "fields": [{"name": p["name"], "k": "m", "m": p["m"]} for p in ps], "deny": False, "ann": {}})
    return out


# ---- C16: documents with several inline-object sites (same shape, different limits) ----
def _valid_site_schema(site):
    fn = [f["name"] for f in site["fields"]]
    if fn != sorted(set(fn)) or not all(_re.fullmatch(r"[a-z][a-z0-9_]*", x) for x in fn):
        raise ValueError("fields must be sorted, distinct snake_case")
    if any(f["s"]["k"] not in ("prim", "arrP") for f in site["fields"]):
        raise ValueError("sites hold leaf members only")
    o = {"type": "object", "properties": {f["name"]: fs_schema(f["s"]) for f in site["fields"]}}
    req = [f["name"] for f in site["fields"] if f["req"]]
    if req:
        o["required"] = req
    for k, v in (site.get("ann") or {}).items():
        o[k] = v
    return o


def valid_sites_spec(d):
    """d: {comps: [{name, usage: req|resp|both, fields: [{name, wrap: plain|array, req, ann?, fields: [{name, req, s}]}]}]}
    every component is used by its own operation `op<Name>` as its usage says"""
    s = {"openapi": "3.1.0", "info": {"title": "t", "version": "1"}, "paths": {}, "components": {"schemas": {}}}
    ref = lambda n: {"$ref": "#/components/schemas/" + n}
    names = [c["name"] for c in d["comps"]]
    if names != sorted(set(names)):
        raise ValueError("components must be sorted and distinct")
    for c in d["comps"]:
        fn = [f["name"] for f in c["fields"]]
        if fn != sorted(set(fn)):
            raise ValueError("members must be sorted and distinct")
        o = {"type": "object", "properties": {}}
        for f in c["fields"]:
            sch = _valid_site_schema(f)
            o["properties"][f["name"]] = {"type": "array", "items": sch} if f.get("wrap") == "array" else sch
        req = [f["name"] for f in c["fields"] if f.get("req")]
        if req:
            o["required"] = req
        s["components"]["schemas"][c["name"]] = o
        u = c["usage"]
        if u not in ("req", "resp", "both"):
            raise ValueError("usage")
        op = {"operationId": "op" + c["name"], "responses": {"200": {"description": "ok"}}}
        if u in ("req", "both"):
            op["requestBody"] = {"required": True, "content": {"application/json": {"schema": ref(c["name"])}}}
        if u in ("resp", "both"):
            op["responses"]["200"]["content"] = {"application/json": {"schema": ref(c["name"])}}
        s["paths"]["/" + c["name"].lower()] = {"post": op}
    return s


def valid_sites_list(d):
    """[{at: [component, member], usage, key: the site's own object schema, fields}] in walk order"""
    return [{"at": [c["name"], f["name"]], "usage": c["usage"], "key": _valid_site_schema(f), "fields": f["fields"]}
            for c in d["comps"] for f in c["fields"]]
