"""Shared machinery for /verif/bin/check: translator (T), Lean build + axiom audit (P), harness
build + kernel correspondence (K), CLI runs (E), verdict logic (DESIGN.md §4), evidence writer."""
import contextlib, fcntl, hashlib, json, os, random, re, shutil, subprocess, sys, time

VERIF = os.path.dirname(os.path.dirname(os.path.abspath(__file__)))
REPO = os.environ.get("VERIF_REPO", "/repo")
CACHE = os.path.join(VERIF, ".cache")
LEAN = os.path.join(VERIF, "lean", "Oas3Model")
HARNESS = os.path.join(VERIF, "harness")
DRIVER = os.path.join(LEAN, ".lake", "build", "bin", "driver")
TARGET = os.path.join(CACHE, "target")
CLI_TARGET = os.path.join(CACHE, "cli-target")
ALLOWED_AXIOMS = {"propext", "Classical.choice", "Quot.sound"}
ENV = dict(os.environ, CARGO_NET_OFFLINE="true", CARGO_TERM_COLOR="never", CARGO_TARGET_DIR=TARGET)

os.makedirs(CACHE, exist_ok=True)


@contextlib.contextmanager
def lock(name):
    path = os.path.join(CACHE, name + ".lock")
    with open(path, "w") as f:
        fcntl.flock(f, fcntl.LOCK_EX)
        try:
            yield
        finally:
            fcntl.flock(f, fcntl.LOCK_UN)


def sh(cmd, cwd=None, timeout=3600, input=None, env=None):
    p = subprocess.run(cmd, cwd=cwd, input=input, capture_output=True, text=True, timeout=timeout, env=env or ENV)
    return p.returncode, p.stdout, p.stderr


class SplitMix:
    """all random choices derive from VERIF_SEED through this."""

    def __init__(self, seed):
        self.r = random.Random(seed)

    def __getattr__(self, k):
        return getattr(self.r, k)


# --------------------------------------------------------------------------------------------
class Break:
    """a proof obligation, the translator or a correspondence that no longer checks."""

    def __init__(self, kind, name, detail=""):
        self.kind, self.name, self.detail = kind, name, detail

    def to_json(self):
        return {"kind": self.kind, "name": self.name, "detail": self.detail[-4000:]}


class Ctx:
    def __init__(self, prop, tier, seed):
        self.prop, self.tier, self.seed = prop, tier, seed
        self.t0 = time.time()
        self.breaks = []          # Break
        self.unpredicted = []     # judge failures with a known class on inputs where model != implementation
        self.violations = []      # dict(case=…, why=…)  unlisted judge failures on the implementation
        self.mismatches = []      # model != impl (judge ok or known)
        self.known_seen = {}      # class -> example case
        self.evaluations = 0
        self.branches = {}
        self.distinct = set()
        self.samples = []
        self.theorems = {}        # name -> axioms list
        self.gen_tables = {}
        self.extra = {}
        self.notes = []
        self.ties = {}            # tie name -> cases run
        self.rng = SplitMix(seed)
        self.quick = tier == "quick"

    def note(self, s):
        self.notes.append(s)
        print(f"[{self.prop}] {s}", file=sys.stderr)

    # ---------------- T ----------------
    def translate(self, needed):
        rc, out, err = sh([sys.executable, os.path.join(VERIF, "tools", "extract.py")])
        try:
            rep = json.loads(out.strip().splitlines()[-1])
        except Exception:
            self.breaks.append(Break("translator", "extract.py", out + err))
            return False
        self.gen_tables = {k: v for k, v in rep["tables"].items() if k in needed}
        ok = True
        for name in needed:
            if name in rep["failed"]:
                self.breaks.append(Break("translator", f"translator:{name}", rep["failed"][name]))
                ok = False
        return ok

    # ---------------- P ----------------
    def build_lean(self, modules, driver=True):
        """lake build the property's proof module(s) and the driver; returns (proofs_ok, driver_ok)."""
        with lock("lake"):
            proofs_ok = True
            for m in modules:
                rc, out, err = sh(["lake", "build", m], cwd=LEAN, timeout=3000)
                if rc != 0:
                    proofs_ok = False
                    thm = self._failed_theorem(out + err)
                    self.breaks.append(Break("proof", f"{m}:{thm}", out + err))
            driver_ok = True
            if driver:
                rc, out, err = sh(["lake", "build", "driver"], cwd=LEAN, timeout=3000)
                if rc != 0:
                    driver_ok = False
                    self.breaks.append(Break("model", "driver", out + err))
        return proofs_ok, driver_ok

    @staticmethod
    def _failed_theorem(log):
        m = re.search(r"error: ([^\n]*?\.lean):(\d+):(\d+)", log)
        if not m:
            return "build-failed"
        path, line = m.group(1), int(m.group(2))
        if not os.path.isabs(path):
            path = os.path.join(LEAN, path)
        try:
            src = open(path, encoding="utf-8").read().splitlines()
            for i in range(min(line, len(src)) - 1, -1, -1):
                mm = re.match(r"\s*(?:private\s+)?(?:theorem|lemma|def|example|instance)\s+(\S+)?", src[i])
                if mm:
                    return mm.group(1) or "example"
        except OSError:
            pass
        return f"{os.path.basename(path)}:{line}"

    def audit(self, module):
        """#print axioms on every theorem of the Props module; forbidden-construct grep on the
        whole Lean tree it depends on.  Fills self.theorems.  Returns number of bad theorems."""
        rel = module.replace(".", "/") + ".lean"
        src = open(os.path.join(LEAN, rel), encoding="utf-8").read()
        nosrc = re.sub(r"/-.*?-/", "", src, flags=re.S)
        nosrc = re.sub(r"--[^\n]*", "", nosrc)
        ns = re.findall(r"^namespace\s+(\S+)", nosrc, flags=re.M)
        names = re.findall(r"^\s*theorem\s+(\S+)", nosrc, flags=re.M)
        prefix = (ns[0] + ".") if ns else ""
        audit_src = f"import {module}\n" + "".join(f"#print axioms {prefix}{n}\n" for n in names)
        adir = os.path.join(CACHE, "audit")
        os.makedirs(adir, exist_ok=True)
        apath = os.path.join(adir, f"Audit_{self.prop}.lean")
        open(apath, "w").write(audit_src)
        rc, out, err = sh(["lake", "env", "lean", apath], cwd=LEAN, timeout=1200)
        text = out + err
        bad = 0
        for n in names:
            full = prefix + n
            m = re.search(r"'" + re.escape(full) + r"' (depends on axioms: \[([^\]]*)\]|does not depend on any axioms)", text, flags=re.S)
            if not m:
                self.theorems[full] = ["<not-found>"]
                bad += 1
                continue
            axs = [a.strip() for a in (m.group(2) or "").replace("\n", " ").split(",") if a.strip()]
            self.theorems[full] = axs
            if not set(axs) <= ALLOWED_AXIOMS:
                bad += 1
        # forbidden constructs anywhere in the Lean sources (comments stripped)
        hits = []
        for root, _, files in os.walk(os.path.join(LEAN, "Oas3Model")):
            for f in files:
                if f.endswith(".lean"):
                    s = open(os.path.join(root, f), encoding="utf-8").read()
                    s = re.sub(r"/-.*?-/", "", s, flags=re.S)
                    s = re.sub(r"--[^\n]*", "", s)
                    for pat in (r"\bsorry\b", r"\badmit\b", r"^\s*axiom\s", r"native_decide", r"bv_decide", r"implemented_by", r"\bunsafe\s", r"maxHeartbeats\s+0\b"):
                        if re.search(pat, s, flags=re.M):
                            hits.append(f"{f}:{pat}")
        if hits:
            self.breaks.append(Break("proof", "forbidden-construct", ", ".join(hits)))
        if bad:
            self.breaks.append(Break("proof", "axioms", json.dumps({k: v for k, v in self.theorems.items() if not set(v) <= ALLOWED_AXIOMS})))
        if not names:
            self.breaks.append(Break("proof", f"{module}:no-theorems"))
        return bad

    def leanchecker(self, module):
        rc, out, err = sh(["lake", "env", "leanchecker", module], cwd=LEAN, timeout=3000)
        self.extra["leanchecker"] = {"module": module, "rc": rc, "out": (out + err)[-500:]}
        if rc != 0:
            self.breaks.append(Break("proof", f"leanchecker:{module}", out + err))

    # ---------------- K ----------------
    def build_harness(self, features, bins=("hk",)):
        """build the harness against /repo's current tree.  Tries the full feature set first (one
        shared build for all properties) and falls back to this property's own features."""
        lockfile = os.path.join(HARNESS, "Cargo.lock")
        with lock("cargo"):
            shutil.copyfile(os.path.join(REPO, "Cargo.lock"), lockfile)
            outs = []
            for feats, tag in (("all", "all"), (",".join(features), self.prop)):
                ok = True
                for b in bins:
                    cmd = ["cargo", "build", "--offline", "--bin", b]
                    if b == "hk":
                        cmd += ["--features", feats]
                    rc, out, err = sh(cmd, cwd=HARNESS, timeout=3000)
                    if rc != 0:
                        ok = False
                        outs.append(err)
                        break
                if ok:
                    dst = {}
                    os.makedirs(os.path.join(CACHE, "bin"), exist_ok=True)
                    for b in bins:
                        d = os.path.join(CACHE, "bin", f"{b}-{self.prop}")
                        shutil.copyfile(os.path.join(TARGET, "debug", b), d + ".tmp")
                        os.chmod(d + ".tmp", 0o755)
                        os.replace(d + ".tmp", d)
                        dst[b] = d
                    self.bins = dst
                    return True
                if not features:
                    break
            self.breaks.append(Break("harness", "harness-build:" + ",".join(features), "\n".join(outs)))
            return False

    def build_cli(self):
        # VERIF_CLI=<path>: judge an already built binary (e.g. one built from a privately patched copy of the
        # repository, see tools/c11c12_sensitivity.sh) instead of building /repo's tree
        override = os.environ.get("VERIF_CLI")
        if override:
            os.makedirs(os.path.join(CACHE, "bin"), exist_ok=True)
            d = os.path.join(CACHE, "bin", f"oas3-gen-{self.prop}")
            shutil.copyfile(override, d + ".tmp")
            os.chmod(d + ".tmp", 0o755)
            os.replace(d + ".tmp", d)
            self.cli = d
            self.note(f"VERIF_CLI: judging {override}")
            return d
        with lock("cargo-cli"):
            rc, out, err = sh(["cargo", "build", "--offline", "-p", "oas3-gen", "--bin", "oas3-gen", "--target-dir", CLI_TARGET], cwd=REPO, timeout=3000, env=dict(ENV, CARGO_TARGET_DIR=CLI_TARGET))
            if rc != 0:
                self.breaks.append(Break("harness", "cli-build", err))
                return None
            os.makedirs(os.path.join(CACHE, "bin"), exist_ok=True)
            d = os.path.join(CACHE, "bin", f"oas3-gen-{self.prop}")
            shutil.copyfile(os.path.join(CLI_TARGET, "debug", "oas3-gen"), d + ".tmp")
            os.chmod(d + ".tmp", 0o755)
            os.replace(d + ".tmp", d)
            self.cli = d
            return d

    def scratch(self, name=""):
        d = os.path.join(CACHE, "scratch", self.prop, name)
        shutil.rmtree(d, ignore_errors=True)
        os.makedirs(d, exist_ok=True)
        return d

    def run_cli(self, args, cwd=None, timeout=60, env=None, stdout_to=None, stdout_closed=False):
        """the REAL binary built from /repo's current tree. Returns (rc, stdout, stderr, timed_out).
        env: added to the default environment; a value of None REMOVES the variable.  stdout_to: a file path that
        receives stdout (the process then writes to a regular file instead of a pipe)."""
        e = dict(ENV, COLUMNS="400", NO_COLOR="1", TERM="dumb")
        if env:
            for k, v in env.items():
                if v is None:
                    e.pop(k, None)
                else:
                    e[k] = v
        try:
            if stdout_closed:
                # stdout is a pipe nobody reads (`| head`, a pager that was quit): every write fails with EPIPE
                rd, wr = os.pipe()
                os.close(rd)
                try:
                    p = subprocess.run([self.cli] + args, cwd=cwd, stdout=wr, stderr=subprocess.PIPE, text=True, timeout=timeout, env=e)
                finally:
                    os.close(wr)
                return p.returncode, "", p.stderr, False
            if stdout_to:
                with open(stdout_to, "w") as fh:
                    p = subprocess.run([self.cli] + args, cwd=cwd, stdout=fh, stderr=subprocess.PIPE, text=True, timeout=timeout, env=e)
                return p.returncode, open(stdout_to, encoding="utf-8", errors="replace").read(), p.stderr, False
            p = subprocess.run([self.cli] + args, cwd=cwd, capture_output=True, text=True, timeout=timeout, env=e)
            return p.returncode, p.stdout, p.stderr, False
        except subprocess.TimeoutExpired as ex:
            return -9, (ex.stdout or b"").decode(errors="replace") if isinstance(ex.stdout, bytes) else (ex.stdout or ""), "", True

    def synfacts(self, paths):
        rc, out, err = sh([os.path.join(TARGET, "debug", "synfacts")] + list(paths), timeout=600)
        return json.loads(out) if rc == 0 and out.strip() else {}

    def judge_direct(self, cases_with_impl, tie="E"):
        """cases whose implementation output was obtained outside the harness (CLI runs): straight to the driver."""
        triples = [{"op": c["op"], "in": c["in"], "impl": c["impl"]} for c in cases_with_impl]
        answers = self.run_model(triples)
        self.ties[tie] = self.ties.get(tie, 0) + len(triples)
        cases = [{"op": c["op"], "in": c.get("primary", c["in"])} for c in cases_with_impl]
        self.classify(list(zip(cases, triples, answers)), shrink=False, tie=tie)

    def run_impl(self, cases, bin="hk"):
        """cases: list of {"op","in"} -> list of {"op","in","impl"} (same order)."""
        if not cases:
            return []
        inp = "".join(json.dumps(c, ensure_ascii=False) + "\n" for c in cases)
        rc, out, err = sh([self.bins[bin]], input=inp, timeout=3000)
        lines = [l for l in out.splitlines() if l.strip()]
        if len(lines) != len(cases):
            # the process died (abort / stack overflow): bisect to the offending case
            res = []
            if len(cases) == 1:
                return [dict(cases[0], impl={"abort": f"rc={rc}", "stderr": err[-300:]})]
            mid = len(cases) // 2
            return self.run_impl(cases[:mid], bin) + self.run_impl(cases[mid:], bin)
        return [json.loads(l) for l in lines]

    def run_model(self, triples):
        """triples: list of {"op","in","impl"} -> driver answers."""
        if not triples:
            return []
        inp = "".join(json.dumps(c, ensure_ascii=False) + "\n" for c in triples)
        rc, out, err = sh([DRIVER], input=inp, timeout=3000)
        lines = [l for l in out.splitlines() if l.strip()]
        if len(lines) != len(triples):
            raise RuntimeError(f"driver answered {len(lines)} of {len(triples)} lines: rc={rc} {err[-500:]}")
        return [json.loads(l) for l in lines]

    def evaluate(self, cases, tie="K", bin="hk"):
        """K step for a batch: impl, model, judge.  Returns list of (case, triple, answer)."""
        prep = getattr(self, "prepare", None)
        sent = [prep(c) for c in cases] if prep else cases
        self._bin = bin
        triples = self.run_impl(sent, bin)
        answers = self.run_model(triples)
        self.ties[tie] = self.ties.get(tie, 0) + len(cases)
        return list(zip(cases, triples, answers))

    def classify(self, results, shrink=True, tie="K"):
        """verdict step 3 of DESIGN §4 on a batch of evaluated cases."""
        for case, triple, ans in results:
            self.evaluations += 1
            if "err" in ans:
                # the model refused the request: that is a defect of the machinery, reported as a
                # broken correspondence (never silently skipped)
                self.mismatches.append({"case": case, "impl": triple.get("impl"), "model": {"err": ans["err"]}, "judge": None})
                continue
            br = ans.get("branch", "")
            self.branches[br] = self.branches.get(br, 0) + 1
            key = hashlib.sha1(json.dumps([case["op"], case["in"]], sort_keys=True).encode()).hexdigest()
            if br not in ("", "trivial"):
                self.distinct.add(key)
            if len(self.samples) < 6 and self.rng.random() < 0.02 or not self.samples:
                self.samples.append({"case": case, "impl": triple["impl"], "model": ans.get("model"), "judge": ans.get("judge")})
            j = ans.get("judge") or {"ok": True, "known": []}
            if not ans.get("match", True):
                self.mismatches.append({"case": case, "impl": triple["impl"], "model": ans.get("model"), "judge": j})
            if not j["ok"]:
                if j["known"] and not ans.get("match", True):
                    # the property fails on the implementation's output and the model does NOT behave like the
                    # implementation here: the listed class cannot account for it (DESIGN §4); kept as the failing input
                    # of the correspondence break
                    self.unpredicted.append({"case": case, "impl": triple["impl"], "why": j.get("why", "") + f" [judge names {j['known']}, but model and implementation differ on this input: not attributed]"})
                if j["known"] and ans.get("match", True):
                    for k in j["known"]:
                        self.known_seen.setdefault(k, {"case": case, "impl": triple["impl"], "why": j.get("why", "")})
                elif not j["known"]:
                    c, c_impl, c_why = (self.shrink(case, tie, bin=getattr(self, "_bin", "hk"), why=j.get("why", "")) if shrink else (case, None, None))
                    v = {"case": c, "original": case, "impl": triple["impl"] if c_impl is None else c_impl, "why": j.get("why", "") if c_why is None else c_why}
                    if c_impl is not None:
                        v["original_impl"], v["original_why"] = triple["impl"], j.get("why", "")
                    self.violations.append(v)

    # ---------------- shrinking ----------------
    def _still_fails(self, cands, bin="hk", sig=None):
        prep = getattr(self, "prepare", None)
        if prep:
            ok = []
            for c in cands:
                try:
                    prep(c); ok.append(c)
                except Exception:
                    pass            # shrinking produced an ill-formed primary input: not a candidate
            cands = ok
        if not cands:
            return None
        res = self.evaluate(cands, tie="shrink", bin=bin)
        for case, triple, ans in res:
            j = ans.get("judge")
            # the SAME failure (same reason up to positions and counts), not just any failure
            if j and not j["ok"] and not j["known"] and (sig is None or why_sig(j.get("why", "")) == sig):
                return case, triple.get("impl"), j.get("why", "")
        return None

    def shrink(self, case, tie, bin="hk", rounds=12, why=None):
        cur = (case, None, None)
        if getattr(self, "shrunk", 0) >= 3:      # shrink the first few failures only
            return cur
        self.shrunk = getattr(self, "shrunk", 0) + 1
        sig = why_sig(why) if why is not None else None
        for _ in range(rounds):
            cands = [dict(cur[0], **{"in": v}) for v in shrink_json(cur[0]["in"])][:80]
            if not cands:
                break
            nxt = self._still_fails(cands, bin, sig)
            if nxt is None:
                break
            cur = nxt
        return cur

    # ---------------- finish ----------------
    def load_known(self):
        path = os.path.join(VERIF, "known_findings.jsonl")
        out = []
        if os.path.exists(path):
            for l in open(path, encoding="utf-8"):
                l = l.strip()
                if l and not l.startswith("#"):
                    e = json.loads(l)
                    if e.get("property") == self.prop:
                        out.append(e)
        return out

    def finish(self, level="proof", checker_cmd="", trusted_base=None, rule="", assumptions=None):
        known = self.load_known()
        open_classes = {e["class"]: e for e in known if e.get("status", "open") == "open"}
        lines = []
        # a failure attributed to a class that is not listed (or listed as fixed) is a violation
        for cls, ex in list(self.known_seen.items()):
            if cls not in open_classes:
                self.violations.append({"case": ex["case"], "impl": ex["impl"], "why": f"class {cls} is not an open known finding: " + ex.get("why", "")})
        # findings listed BY INPUT (`"by_input": true`): a failing case that is exactly the listed witness is that finding; any other
        # failing input of the same kind is still reported
        by_input = [e for e in known if e.get("status", "open") == "open" and e.get("by_input")]
        listed_inputs = []
        if by_input and self.violations:
            canon = lambda c: json.dumps([c.get("op"), c.get("in")], sort_keys=True)
            keep = []
            for v in self.violations:
                hit = [e for e in by_input if isinstance(v.get("case"), dict) and canon(e["witness"]) == canon(v["case"])]
                if hit:
                    listed_inputs.append(hit[0])
                else:
                    keep.append(v)
            self.violations = keep
        rdir = os.path.join(VERIF, "evidence", "replay")
        os.makedirs(rdir, exist_ok=True)
        rc = 0
        if self.violations:
            v = self.violations[0]
            rp = os.path.join(rdir, f"{self.prop}.json")
            json.dump({"property": self.prop, "kind": "failing-input", "case": v["case"], "impl": v.get("impl"), "why": v.get("why"),
                       "all": self.violations[:20], "breaks": [b.to_json() for b in self.breaks]}, open(rp, "w"), indent=1, ensure_ascii=False)
            lines.append(f"VIOLATION property={self.prop} replay={rp}")
            rc = 1
        elif (self.breaks or self.mismatches) and self.unpredicted:
            v = self.unpredicted[0]
            rp = os.path.join(rdir, f"{self.prop}.json")
            json.dump({"property": self.prop, "kind": "failing-input", "case": v["case"], "impl": v.get("impl"), "why": v.get("why"),
                       "all": self.unpredicted[:20], "breaks": [b.to_json() for b in self.breaks],
                       "no_longer_checks": [b.name for b in self.breaks] + ([f"correspondence:{self.mismatches[0]['case'].get('op')}"] if self.mismatches else [])},
                      open(rp, "w"), indent=1, ensure_ascii=False)
            lines.append(f"VIOLATION property={self.prop} replay={rp}")
            rc = 1
        elif self.breaks or self.mismatches:
            rp = os.path.join(rdir, f"{self.prop}.json")
            what = [b.to_json() for b in self.breaks]
            json.dump({"property": self.prop, "kind": "no-failing-input-found",
                       "no_longer_checks": [b.name for b in self.breaks] + ([f"correspondence:{self.mismatches[0]['case'].get('op')}"] if self.mismatches else []),
                       "breaks": what, "mismatches": self.mismatches[:20]}, open(rp, "w"), indent=1, ensure_ascii=False)
            lines.append(f"VIOLATION property={self.prop} replay={rp} no-failing-input-found")
            rc = 1
        else:
            # a clean run leaves no replay file of an earlier violation behind
            stale = os.path.join(rdir, f"{self.prop}.json")
            if os.path.exists(stale) and not getattr(self, "replay", None):
                os.remove(stale)
            for cls, e in open_classes.items():
                if cls in self.known_seen:
                    lines.append(f"KNOWN-FINDING: property={self.prop} {e['id']} [{cls}] {e['what']}")
            for e in {e["id"]: e for e in listed_inputs}.values():
                lines.append(f"KNOWN-FINDING: property={self.prop} {e['id']} [listed input] {e['what']}")
        nthm = len(self.theorems)
        good = sum(1 for v in self.theorems.values() if set(v) <= ALLOWED_AXIOMS)
        proof_broken = any(b.kind == "proof" for b in self.breaks)
        cov = {
            "obligations": max(nthm, 1), "discharged": 0 if proof_broken else good,
            "checker_cmd": checker_cmd, "trusted_base": trusted_base or [],
            "evaluations": self.evaluations, "distinct_nontrivial": len(self.distinct),
            "rule": rule, "samples": self.samples[:8] or [{"note": "no cases were run"}],
            "programs": self.evaluations, "disagreements_checked": len(self.mismatches),
            "branch_histogram": self.branches, "ties": self.ties,
            "axioms_by_theorem": self.theorems, "gen_tables": self.gen_tables,
            "known_findings_seen": sorted(self.known_seen), "breaks": [b.to_json() for b in self.breaks][:10],
            "mismatches": self.mismatches[:5], "notes": self.notes[-30:],
        }
        cov.update(self.extra)
        ev = {"property_id": self.prop, "tier": self.tier, "seed": self.seed, "level": level, "coverage": cov,
              "assumptions": assumptions or [], "wall_s": round(time.time() - self.t0, 2),
              "violations": len(self.violations) + (1 if (rc and not self.violations) else 0)}
        os.makedirs(os.path.join(VERIF, "evidence"), exist_ok=True)
        tmp = os.path.join(VERIF, "evidence", f".{self.prop}.json.tmp")
        json.dump(ev, open(tmp, "w"), indent=1, ensure_ascii=False)
        os.replace(tmp, os.path.join(VERIF, "evidence", f"{self.prop}.json"))
        for l in lines:
            print(l)
        print(f"[{self.prop}] tier={self.tier} seed={self.seed} evaluations={self.evaluations} theorems={good}/{nthm} "
              f"mismatches={len(self.mismatches)} violations={len(self.violations)} breaks={[b.name for b in self.breaks]} "
              f"known={sorted(self.known_seen)} wall={ev['wall_s']}s", file=sys.stderr)
        return rc


def why_sig(why):
    """the kind of a judge failure: first clause, positions / counts / quoted values blanked"""
    w = (why or "").split(";")[0]
    w = re.sub(r"'[^']*'|\"[^\"]*\"|`[^`]*`", "Q", w)
    w = re.sub(r"\[[^\]]*\]|\{[^}]*\}", "B", w)
    return re.sub(r"\d+", "#", w)[:160]


def shrink_json(v):
    """simpler variants of a JSON value (one step)."""
    if isinstance(v, str):
        for i in range(len(v)):
            yield v[:i] + v[i + 1:]
        if len(v) > 3:
            yield v[: len(v) // 2]
            yield v[len(v) // 2:]
    elif isinstance(v, bool):
        return
    elif isinstance(v, int):
        if v != 0:
            yield 0
            yield v // 2
    elif isinstance(v, list):
        for i in range(len(v)):
            yield v[:i] + v[i + 1:]
        for i in range(len(v)):
            for s in shrink_json(v[i]):
                yield v[:i] + [s] + v[i + 1:]
    elif isinstance(v, dict):
        for k in list(v):
            if k in ("tr",):
                continue
            for s in shrink_json(v[k]):
                d = dict(v)
                d[k] = s
                yield d
        for k in list(v):
            if k.startswith("?"):
                d = dict(v)
                del d[k]
                yield d


TRUSTED_BASE = [
    "Lean 4.33.0 kernel",
    "axioms: propext, Classical.choice, Quot.sound only (audited with #print axioms on every Props theorem)",
    "tools/extract.py translator (tables regenerated from /repo on every run)",
    "harness (Rust, #[path]-includes /repo's current generator sources) + bin/check (python) run model and implementation on the same inputs and diff canonically",
]
