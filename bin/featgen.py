"""Feature grammar for C01: mostly-valid OpenAPI 3.1 documents drawn from the generator's own vocabulary
(objects, arrays, maps, primitives+formats, enums of any JSON type, oneOf/anyOf/allOf, discriminators, nullable,
$ref cycles, path/query/header parameters at path-item and operation level, JSON/form/text/binary bodies,
exact/range/default responses).  Every choice comes from the `r` that is handed in (ctx.rng).

Names are plain ASCII identifiers (naming is C09's business); OPTIONS/TRACE are left out (C03/C12 findings: the
generator panics, nothing is written).  `feature(...)` builds the small single-feature documents used for the
bounded-exhaustive part and for the witnesses."""
import copy

SCHEMA_POOL = ["Acct", "Blob", "Cfg", "Doc", "Evt", "Folder", "Grp", "Host", "Item", "Job", "Key", "Leaf"]
PROP_POOL = ["alpha", "beta", "count", "data", "extra", "flag", "group", "height", "ident", "kind_of", "label", "meta", "note", "owner", "price", "qty"]
INT_FORMATS = [None, None, None, "int32", "int64", "int8", "int16", "uint8", "uint16", "uint32", "uint64"]
NUM_FORMATS = [None, None, "float", "double"]
STR_FORMATS = [None, None, None, None, "date", "date-time", "uuid", "byte", "binary", "email", "uri", "password", "time", "duration", "hostname"]


def ref(n):
    return {"$ref": "#/components/schemas/" + n}


def rand_prim(r, wild=True):
    k = r.choice(["string", "string", "string", "integer", "integer", "number", "boolean"])
    s = {"type": k}
    if k == "string":
        f = r.choice(STR_FORMATS)
        if f:
            s["format"] = f
        if wild and r.random() < 0.25 and f in (None, "email", "password", "hostname"):
            if r.random() < 0.6:
                s["minLength"] = r.choice([0, 1, 2])
            if r.random() < 0.6:
                s["maxLength"] = r.choice([3, 10, 64])
            if r.random() < 0.3:
                s["pattern"] = r.choice(["^[a-z]+$", "^\\d{3}$", "x"])
        if wild and r.random() < 0.12 and f is None:
            s["default"] = r.choice(["a", "", "x y", "q\"uote"])
    elif k == "integer":
        f = r.choice(INT_FORMATS)
        if f:
            s["format"] = f
        if wild and r.random() < 0.3:
            lo = r.choice([0, 1, 5])
            if r.random() < 0.7:
                s[r.choice(["minimum", "minimum", "exclusiveMinimum"])] = lo
            if r.random() < 0.7:
                s[r.choice(["maximum", "maximum", "exclusiveMaximum"])] = lo + r.choice([1, 10, 100])
        if wild and r.random() < 0.12:
            s["default"] = r.choice([0, 1, 7, 100])
    elif k == "number":
        f = r.choice(NUM_FORMATS)
        if f:
            s["format"] = f
        if wild and r.random() < 0.3:
            if r.random() < 0.7:
                s["minimum"] = r.choice([0, 0.5, 1])
            if r.random() < 0.7:
                s["maximum"] = r.choice([10, 99.5, 1000])
        if wild and r.random() < 0.12:
            s["default"] = r.choice([0, 1.5, 2])
    else:
        if wild and r.random() < 0.15:
            s["default"] = r.choice([True, False])
    if wild and r.random() < 0.12:
        s["type"] = [k, "null"]
    return s


ENUMS = [["a", "b", "c"], ["on", "off"], ["red", "green", "blue"], [1, 2, 3], [0, 1], [1.5, 2.5], [True, False], ["x", 1, True], ["up", "down", None], ["A", "a"], ["foo-bar", "foo_bar"], ["1st", "2nd"]]


def rand_enum(r):
    vals = list(r.choice(ENUMS))
    s = {"enum": vals}
    ts = {type(v) for v in vals if v is not None}
    if ts == {str}:
        s["type"] = ["string", "null"] if None in vals else "string"
    elif ts == {int}:
        s["type"] = "integer"
    elif ts == {float}:
        s["type"] = "number"
    elif ts == {bool}:
        s["type"] = "boolean"
    if r.random() < 0.15 and vals[0] is not None:
        s["default"] = r.choice([v for v in vals if v is not None])
    return s


def rand_member(r, names, depth=0):
    """schema of an object member / array item / map value"""
    x = r.random()
    if names and x < 0.22:
        return ref(r.choice(names))
    if x < 0.34:
        it = ref(r.choice(names)) if names and r.random() < 0.5 else (rand_prim(r, wild=r.random() < 0.4) if r.random() < 0.8 else rand_enum(r))
        s = {"type": "array", "items": it}
        if r.random() < 0.25:
            s["minItems"] = r.choice([0, 1])
        if r.random() < 0.25:
            s["maxItems"] = r.choice([2, 10])
        if r.random() < 0.15:
            s["uniqueItems"] = True
        if r.random() < 0.08:
            s["type"] = ["array", "null"]
        if r.random() < 0.08 and "$ref" not in it and it.get("type") in ("string", "integer"):
            s["default"] = [] if r.random() < 0.5 else (["a"] if it["type"] == "string" else [1])
        return s
    if x < 0.42:
        v = r.random()
        ap = True if v < 0.2 else (ref(r.choice(names)) if names and v < 0.55 else rand_prim(r, wild=False))
        return {"type": "object", "additionalProperties": ap}
    if x < 0.50:
        return rand_enum(r)
    if x < 0.56 and depth < 2:
        return rand_object(r, names, depth + 1, maxprops=3)
    if x < 0.61 and names:
        alts = [ref(n) for n in r.sample(names, min(len(names), r.randint(1, 3)))]
        if r.random() < 0.4:
            alts.append(r.choice([{"type": "string"}, {"type": "integer"}, {"type": "null"}]))
        return {r.choice(["oneOf", "anyOf"]): alts}
    if x < 0.64:
        return {"const": r.choice(["fixed", 1, True])}
    if x < 0.67 and names:
        return {"allOf": [ref(r.choice(names))]}
    if x < 0.69:
        return {}
    return rand_prim(r)


def rand_object(r, names, depth=0, maxprops=5):
    props, req = {}, []
    for p in r.sample(PROP_POOL, r.randint(1, maxprops)):
        props[p] = rand_member(r, names, depth)
        if r.random() < 0.45:
            req.append(p)
    o = {"type": "object", "properties": props}
    if req:
        o["required"] = sorted(req)
    x = r.random()
    if x < 0.08:
        o["additionalProperties"] = False
    elif x < 0.16:
        o["additionalProperties"] = r.choice([True, {"type": "string"}, {"type": "integer"}])
    return o


def rand_component(r, name, names, objs):
    """names: all component names; objs: names that are (or will be) plain objects"""
    x = r.random()
    others = [n for n in names if n != name]
    oobjs = [n for n in objs if n != name]
    if x < 0.58 or not others:
        return rand_object(r, names)
    if x < 0.66:
        return rand_enum(r)
    if x < 0.71:
        return {"type": "array", "items": ref(r.choice(others)) if r.random() < 0.7 else rand_prim(r, wild=False)}
    if x < 0.75:
        return {"type": "object", "additionalProperties": ref(r.choice(others)) if r.random() < 0.6 else rand_prim(r, wild=False)}
    if x < 0.84 and oobjs:
        alts = [ref(n) for n in r.sample(oobjs, min(len(oobjs), r.randint(1, 3)))]
        if r.random() < 0.25:
            alts.append(r.choice([{"type": "string"}, {"type": "null"}, {"type": "array", "items": {"type": "string"}}]))
        return {r.choice(["oneOf", "oneOf", "anyOf"]): alts}
    if x < 0.91 and oobjs:
        o = rand_object(r, names, maxprops=2)
        return {"allOf": [ref(r.choice(oobjs)), o]}
    if x < 0.95:
        return rand_prim(r)
    return {"anyOf": [{"type": "string", "enum": ["k1", "k2"]}, {"type": "string"}]}


def add_discriminated(r, comps):
    """a tagged union over fresh leaf objects (oneOf + discriminator + const tags), or an allOf base with mapping"""
    kids = r.sample(["Cat", "Dog", "Emu"], r.randint(2, 3))
    prop = "kind"
    if r.random() < 0.6:
        for k in kids:
            comps[k] = {"type": "object", "required": [prop], "properties": {prop: {"type": "string", "const": k.lower()}, k.lower() + "_v": rand_prim(r, wild=False)}}
        u = {"oneOf": [ref(k) for k in kids], "discriminator": {"propertyName": prop}}
        if r.random() < 0.6:
            u["discriminator"]["mapping"] = {k.lower(): "#/components/schemas/" + k for k in kids}
        comps["Pet"] = u
    else:
        comps["Pet"] = {"type": "object", "required": [prop], "properties": {prop: {"type": "string"}, "name": {"type": "string"}},
                        "discriminator": {"propertyName": prop, "mapping": {k.lower(): "#/components/schemas/" + k for k in kids}}}
        for k in kids:
            comps[k] = {"allOf": [ref("Pet"), {"type": "object", "properties": {k.lower() + "_v": rand_prim(r, wild=False)}}]}
    return "Pet"


PARAM_NAMES = ["id", "q", "limit", "sort", "x-tag", "X-Trace", "page", "tags", "since", "ver"]


def rand_param_schema(r, enums):
    x = r.random()
    if x < 0.45:
        s = rand_prim(r, wild=r.random() < 0.4)
        if s.get("format") in ("binary", "byte"):
            del s["format"]
        return s
    if x < 0.62:
        it = r.choice([{"type": "string"}, {"type": "integer"}, {"type": "string", "enum": ["a", "b"]}, {"type": "number"}, {"type": "string", "format": "uuid"}])
        s = {"type": "array", "items": it}
        if r.random() < 0.25:
            # a default on an array parameter (element values of the item type)
            s["default"] = [] if r.random() < 0.3 else [{"string": "a", "integer": 1, "number": 1.5}.get(it["type"], "a")] if "format" not in it else []
        return s
    if x < 0.75:
        return rand_enum(r)
    if x < 0.88 and enums:
        return ref(r.choice(enums))
    return {"type": "string"}


def rand_op(r, idx, names, comps):
    enums = [n for n in names if "enum" in comps[n] and "anyOf" not in comps[n]]
    method = r.choice(["get", "get", "post", "post", "put", "delete", "patch", "head"])
    path = "/r%d" % idx
    params_op, params_item = [], []
    used = set()
    for _ in range(r.choice([0, 0, 1, 1, 2, 3])):
        nm = r.choice(PARAM_NAMES)
        loc = r.choice(["path", "query", "query", "header"])
        if loc == "path" and nm.lower().startswith("x-"):
            loc = "query"
        if (nm, loc) in used:
            continue
        used.add((nm, loc))
        sch = rand_param_schema(r, enums)
        if loc == "path":
            if sch.get("type") == "array" or isinstance(sch.get("type"), list):
                sch = {"type": "string"}
            path += "/{%s}" % nm
        p = {"name": nm, "in": loc, "schema": sch}
        if loc == "path" or r.random() < 0.4:
            p["required"] = True
        if loc == "query" and sch.get("type") == "array":
            if r.random() < 0.6:
                p["explode"] = r.random() < 0.5
            if r.random() < 0.5:
                p["style"] = r.choice(["form", "spaceDelimited", "pipeDelimited"])
        (params_item if r.random() < 0.3 else params_op).append(p)
    op = {"operationId": "op%d" % idx, "responses": {}}
    if params_op:
        op["parameters"] = params_op
    if method in ("post", "put", "patch") or r.random() < 0.1:
        x = r.random()
        body = None
        if x < 0.45 and names:
            body = {"application/json": {"schema": ref(r.choice(names))}}
        elif x < 0.55:
            body = {"application/json": {"schema": rand_member(r, names)}}
        elif x < 0.65 and names:
            body = {"application/x-www-form-urlencoded": {"schema": ref(r.choice(names))}}
        elif x < 0.72:
            body = {"text/plain": {"schema": {"type": "string"}}}
        elif x < 0.79:
            body = {"application/octet-stream": {"schema": {"type": "string", "format": "binary"}}}
        elif x < 0.85 and names:
            body = {"multipart/form-data": {"schema": ref(r.choice(names))}}
        elif x < 0.9 and names:
            body = {"application/json": {"schema": {"type": "array", "items": ref(r.choice(names))}}}
        if body:
            op["requestBody"] = {"content": body}
            if r.random() < 0.7:
                op["requestBody"]["required"] = True
    keys = r.sample(["200", "201", "204", "2XX", "400", "404", "4XX", "500", "default"], r.randint(1, 3))
    for k in keys:
        resp = {"description": "d" + k}
        x = r.random()
        if k != "204" and x < 0.8:
            y = r.random()
            if y < 0.5 and names:
                resp["content"] = {"application/json": {"schema": ref(r.choice(names))}}
            elif y < 0.62 and names:
                resp["content"] = {"application/json": {"schema": {"type": "array", "items": ref(r.choice(names))}}}
            elif y < 0.7:
                resp["content"] = {"text/plain": {"schema": {"type": "string"}}}
            elif y < 0.76:
                resp["content"] = {"application/octet-stream": {"schema": {"type": "string", "format": "binary"}}}
            elif y < 0.84:
                resp["content"] = {"application/json": {"schema": rand_member(r, names)}}
            elif y < 0.89 and names:
                resp["content"] = {"text/event-stream": {"schema": ref(r.choice(names))}}
            elif y < 0.94 and names:
                resp["content"] = {"application/json": {"schema": ref(r.choice(names))}, "text/plain": {"schema": {"type": "string"}}}
            else:
                resp["content"] = {"application/json": {"schema": {"type": "object", "additionalProperties": {"type": "string"}}}}
        if r.random() < 0.15:
            resp["headers"] = {r.choice(["X-Rate", "ETag"]): {"schema": {"type": r.choice(["string", "integer"])}}}
        op["responses"][k] = resp
    item = {method: op}
    if params_item:
        item["parameters"] = params_item
    return path, item


def rand_spec(r):
    n = r.randint(1, 6)
    names = sorted(r.sample(SCHEMA_POOL, n))
    comps = {}
    objs = []
    plan = {}
    for nm in names:
        plan[nm] = None
    # decide which are objects first (unions/allOf pick among objects)
    objs = [nm for nm in names if r.random() < 0.65] or [names[0]]
    for nm in names:
        comps[nm] = rand_object(r, names) if nm in objs else rand_component(r, nm, names, objs)
        if nm not in objs and comps[nm].get("type") == "object" and "properties" in comps[nm]:
            objs.append(nm)
    if r.random() < 0.2:
        names = sorted(set(names) | {add_discriminated(r, comps)})
    paths = {}
    for i in range(r.randint(1, 3)):
        p, item = rand_op(r, i, names, comps)
        paths[p] = item
    return {"openapi": "3.1.0", "info": {"title": "t", "version": "1"}, "paths": paths, "components": {"schemas": comps}}


MODES = ["types", "client-mod", "server-mod", "client"]
VIS = ["public", "crate", "file"]
ENUM_MODES = ["merge", "preserve", "relaxed"]
FLAGS = ["no_helpers", "builders", "odata", "all_schemas", "all_headers"]


def all_cfgs():
    """the 1152 flag combinations of the property's quantifier: 4 modes x 3 visibilities x 3 enum modes x 2^5"""
    out = []
    for m in MODES:
        for v in VIS:
            for e in ENUM_MODES:
                for bits in range(32):
                    cfg = {"vis": v, "enum_mode": e}
                    for i, f in enumerate(FLAGS):
                        cfg[f] = bool(bits >> i & 1)
                    out.append((m, cfg))
    return out


def rand_cfg(r):
    return r.choice(MODES[:3] * 3 + MODES[3:]), dict({"vis": r.choice(VIS), "enum_mode": r.choice(ENUM_MODES)}, **{f: r.random() < 0.5 for f in FLAGS})


def wrap(schemas, body=None, resp=None, params=None, method="post", body_ct="application/json", resp_ct="application/json", resp_key="200"):
    """single-feature document: component schemas + one operation using `body` / `resp` (names) and `params`"""
    op = {"operationId": "op", "responses": {resp_key: {"description": "ok"}}}
    path = "/op"
    if params:
        op["parameters"] = copy.deepcopy(params)
        for p in params:
            if p["in"] == "path":
                path += "/{%s}" % p["name"]
    if body is not None:
        op["requestBody"] = {"required": True, "content": {body_ct: {"schema": ref(body) if isinstance(body, str) else body}}}
    if resp is not None:
        op["responses"][resp_key]["content"] = {resp_ct: {"schema": ref(resp) if isinstance(resp, str) else resp}}
    return {"openapi": "3.1.0", "info": {"title": "t", "version": "1"}, "paths": {path: {method: op}}, "components": {"schemas": copy.deepcopy(schemas)}}


# ---------------------------------------------------------------------------------------------------------------
# ARRAY PARAMETERS (bounded-exhaustive dimension): query parameters of type array x items {string, integer, enum}
# x style {absent, form, spaceDelimited, pipeDelimited} x explode {absent, true, false} x required x with/without a
# schema default x declared at operation / path-item level; header parameters (style does not apply) x items x
# required x default x level.
ARRAY_ITEMS = {"str": ({"type": "string"}, ["a"]), "int": ({"type": "integer"}, [1]), "enum": ({"type": "string", "enum": ["a", "b"]}, ["a"])}
ARRAY_STYLES = [None, "form", "spaceDelimited", "pipeDelimited"]
ARRAY_EXPLODES = [None, True, False]


def array_param(name, loc, items, style=None, explode=None, required=False, default=False):
    sch = {"type": "array", "items": copy.deepcopy(ARRAY_ITEMS[items][0])}
    if default:
        sch["default"] = list(ARRAY_ITEMS[items][1])
    p = {"name": name, "in": loc, "schema": sch}
    if required:
        p["required"] = True
    if style is not None:
        p["style"] = style
    if explode is not None:
        p["explode"] = explode
    return p


def array_param_space():
    """every point of the dimension as (key, location, level, kwargs of array_param)"""
    out = []
    for items in ARRAY_ITEMS:
        for level in ("op", "path"):
            for required in (False, True):
                for default in (False, True):
                    for style in ARRAY_STYLES:
                        for explode in ARRAY_EXPLODES:
                            key = "q-%s-%s-%s-%s-%s-%s" % (items, level, "req" if required else "opt", "dflt" if default else "nodflt", style or "nostyle", {None: "noexp", True: "exp", False: "noexpl"}[explode])
                            out.append((key, "query", level, dict(items=items, style=style, explode=explode, required=required, default=default)))
                    key = "h-%s-%s-%s-%s" % (items, level, "req" if required else "opt", "dflt" if default else "nodflt")
                    out.append((key, "header", level, dict(items=items, required=required, default=default)))
    return out


def array_param_spec(points):
    """one GET operation carrying the given points of the dimension as parameters p0, p1, ... (distinct names)"""
    op = {"operationId": "op", "responses": {"200": {"description": "ok", "content": {"application/json": {"schema": ref("A")}}}}}
    item = {"get": op}
    for i, (key, loc, level, kw) in enumerate(points):
        p = array_param(("p%d" % i) if loc == "query" else ("X-P%d" % i), loc, **kw)
        (item if level == "path" else op).setdefault("parameters", []).append(p)
    return {"openapi": "3.1.0", "info": {"title": "t", "version": "1"}, "paths": {"/op": item},
            "components": {"schemas": {"A": {"type": "object", "properties": {"x": {"type": "string"}}}}}}
