"""Spec grammars shared by the two checks that drive the REAL CLI (C11 determinism, C12 clean termination).

* value grammar: enum / const / anyOf / oneOf shapes whose VALUES are taken from every JSON kind (null, numbers
  beyond i64/u64, floats, booleans, arrays, objects, duplicates, empty strings), placed at every schema position;
* cycle grammar: a component that refers back to itself (or to a sibling that refers back) through a chain of
  1-3 composition keywords, the inner links sitting in INLINE schemas;
* environment-sensitive data: date / date-time / time examples and defaults with offsets, fractional and leap
  seconds, large and fractional numbers, non-ASCII text;
* run configurations (flag sets) and process environments for the determinism comparison.

Nothing here looks at the implementation; every random choice comes from the caller's rng."""
import copy, itertools, json

S = {"type": "string"}


def ref(n):
    return {"$ref": "#/components/schemas/" + n}


def doc(schemas, use="A", params=None, extra_paths=None):
    op = {"operationId": "getA", "responses": {"200": {"description": "d", "content": {"application/json": {"schema": ref(use)}}}}}
    if params:
        op["parameters"] = params
    paths = {"/a": {"get": op}}
    paths.update(extra_paths or {})
    return {"openapi": "3.1.0", "info": {"title": "t", "version": "1"}, "paths": paths, "components": {"schemas": schemas}}


# ------------------------------------------------------------------------------------------ cycles
KEYWORDS = ["allOf", "oneOf", "anyOf", "items", "additionalProperties", "properties", "not", "prefixItems"]


def wrap(kw, inner, rich=False):
    """a schema that holds `inner` under the keyword `kw`; `rich` adds what a real document would have next to it
    (own properties beside allOf, a second union variant, `required`)"""
    if kw == "allOf":
        s = {"allOf": [inner]}
        if rich:
            s.update({"type": "object", "properties": {"p_" + str(len(json.dumps(inner)) % 7): {"type": "string"}}})
        return s
    if kw in ("oneOf", "anyOf"):
        return {kw: [inner, {"type": "string"}]} if rich else {kw: [inner]}
    if kw == "items":
        return {"type": "array", "items": inner}
    if kw == "additionalProperties":
        return {"type": "object", "additionalProperties": inner}
    if kw == "properties":
        s = {"type": "object", "properties": {"f": inner}}
        if rich:
            s["required"] = ["f"]
        return s
    if kw == "not":
        return {"not": inner}
    if kw == "prefixItems":
        return {"type": "array", "prefixItems": [inner]}
    raise ValueError(kw)


def cycle_doc(chain, target="self", rich=False, back=None, used=True):
    """component A = chain[0]( chain[1]( … $ref target … ) ): the links after the first sit in inline schemas.
    target 'self' points back to A; 'sib' points to B, and B = back($ref A) closes the cycle."""
    inner = ref("A" if target == "self" else "B")
    for k in reversed(chain):
        inner = wrap(k, inner, rich)
    sch = {"A": inner}
    if target == "sib":
        sch["B"] = wrap(back or chain[0], ref("A"), rich)
    if not used:
        sch["Pet"] = {"type": "object", "properties": {"name": S}}
    return doc(sch, "A" if used else "Pet")


def all_chains(maxlen):
    out = []
    for n in range(1, maxlen + 1):
        out += list(itertools.product(KEYWORDS, repeat=n))
    return out


def cycle_fixed_family():
    """always run: every keyword one level inside an inline member of every keyword would be 64 runs; the fixed part
    takes, for every keyword k, the cycle that hops through an inline `k` below a top-level `k` and through an inline
    `k` below `allOf` / `properties` (the two ways real documents nest), to itself and to a sibling"""
    fam = []
    for k in KEYWORDS:
        fam.append(((k, k), "self", True, None))
        fam.append((("allOf", k), "sib", True, "allOf"))
        fam.append((("properties", k), "self", False, None))
        fam.append(((k, "allOf"), "self", True, None))
    fam.append((("allOf", "allOf"), "self", False, None))
    fam.append((("allOf", "allOf", "allOf"), "sib", True, "allOf"))
    seen, out = set(), []
    for f in fam:
        if f not in seen:
            seen.add(f); out.append(f)
    return out


# ------------------------------------------------------------------------------------------ values
BIG = 9223372036854775808            # i64::MAX + 1
HUGE = 18446744073709551616          # u64::MAX + 1
VALUE_KINDS = {
    "null": [None], "int": [0, 1, -1, 7], "big": [BIG, HUGE, -9223372036854775809, 10 ** 30], "float": [1.5, -0.0, 1e308, 2.5e-7],
    "bool": [True, False], "array": [[], [1], ["a", "b"]], "object": [{}, {"a": 1}], "empty": ["", " "],
    "string": ["a", "A", "basic", "pro", "1", "null", "true", "a-b", "a_b", "é", "Self", "type"],
}
ALL_VALUES = [v for vs in VALUE_KINDS.values() for v in vs]
ENUM_SHAPES = ["plain-string", "plain-untyped", "plain-nullable", "plain-integer", "plain-number", "plain-boolean",
               "relaxed-anyOf", "relaxed-anyOf-nullable", "relaxed-anyOf-untyped", "relaxed-anyOf-consts", "relaxed-anyOf-rev",
               "relaxed-oneOf", "oneOf-consts", "oneOf-typed-consts", "anyOf-two-enums", "allOf-enum", "nullable-union-enum"]
POSITIONS = ["component", "property", "items", "param", "header", "addl", "response", "body"]


def enum_shape(name, vals):
    if name == "plain-string": return {"type": "string", "enum": vals}
    if name == "plain-untyped": return {"enum": vals}
    if name == "plain-nullable": return {"type": ["string", "null"], "enum": vals}
    if name == "plain-integer": return {"type": "integer", "enum": vals}
    if name == "plain-number": return {"type": "number", "enum": vals}
    if name == "plain-boolean": return {"type": "boolean", "enum": vals}
    if name == "relaxed-anyOf": return {"anyOf": [dict(S), {"type": "string", "enum": vals}]}
    if name == "relaxed-anyOf-nullable": return {"anyOf": [dict(S), {"type": ["string", "null"], "enum": vals}]}
    if name == "relaxed-anyOf-untyped": return {"anyOf": [{"enum": vals}, dict(S)]}
    if name == "relaxed-anyOf-rev": return {"anyOf": [{"type": "string", "enum": vals}, dict(S)]}
    if name == "relaxed-anyOf-consts": return {"anyOf": [dict(S)] + [{"const": v} for v in vals]}
    if name == "relaxed-oneOf": return {"oneOf": [dict(S), {"type": "string", "enum": vals}]}
    if name == "oneOf-consts": return {"oneOf": [{"const": v} for v in vals]}
    if name == "oneOf-typed-consts": return {"oneOf": [{"type": "string", "const": v, "description": "d"} for v in vals]}
    if name == "anyOf-two-enums": return {"anyOf": [{"type": "string", "enum": vals}, {"type": "integer", "enum": vals}]}
    if name == "allOf-enum": return {"allOf": [{"type": "string", "enum": vals}]}
    if name == "nullable-union-enum": return {"oneOf": [{"type": "string", "enum": vals}, {"type": "null"}]}
    raise ValueError(name)


def place(schema, pos):
    """the document with `schema` at the given position"""
    sch = {"Pet": {"type": "object", "properties": {"name": dict(S)}}}
    params, extra = [], {}
    if pos == "component":
        sch["Kind"] = schema; sch["Pet"]["properties"]["kind"] = ref("Kind")
    elif pos == "property":
        sch["Pet"]["properties"]["kind"] = schema
    elif pos == "items":
        sch["Pet"]["properties"]["kinds"] = {"type": "array", "items": schema}
    elif pos == "param":
        params = [{"name": "kind", "in": "query", "schema": schema}]
    elif pos == "header":
        params = [{"name": "X-Kind", "in": "header", "required": True, "schema": schema}]
    elif pos == "addl":
        sch["Pet"]["additionalProperties"] = schema
    elif pos == "response":
        extra["/k"] = {"get": {"operationId": "getKind", "responses": {"200": {"description": "d", "content": {"application/json": {"schema": schema}}}}}}
    elif pos == "body":
        extra["/k"] = {"post": {"operationId": "postKind", "requestBody": {"required": True, "content": {"application/json": {"schema": schema}}}, "responses": {"204": {"description": "d"}}}}
    else:
        raise ValueError(pos)
    return doc(sch, "Pet", params, extra)


def value_fixed_family():
    """always run: the relaxed pattern `anyOf[string, enum…]` and the plain enum with one value of every kind next to
    two ordinary strings, the duplicated value, and the all-odd list"""
    fam = []
    for kind, vs in VALUE_KINDS.items():
        fam.append(("relaxed-anyOf-nullable" if kind == "null" else "relaxed-anyOf-untyped", ["basic", "pro", vs[0]], "component"))
        fam.append(("plain-untyped", ["basic", vs[-1], "pro"], "property"))
    fam.append(("relaxed-anyOf", ["basic", "pro", "basic", "Basic"], "property"))
    fam.append(("relaxed-anyOf-consts", [None, BIG, [1], {"a": 1}, 1.5, True], "param"))
    fam.append(("oneOf-consts", [None, BIG, [], {}, "", False], "component"))
    fam.append(("relaxed-anyOf-untyped", [], "property"))
    return fam


def random_values(r):
    k = r.choice([1, 2, 3, 4, 6])
    vals = [r.choice(r.choice(list(VALUE_KINDS.values()))) for _ in range(k)]
    if r.random() < 0.4:
        vals = ["basic", "pro"] + vals
    if r.random() < 0.25 and vals:
        vals = vals + [r.choice(vals)]
    r.shuffle(vals)
    return vals


ENUM_MODES = ["merge", "preserve", "relaxed"]


def random_flags(r):
    f = []
    if r.random() < 0.75:
        f += ["--enum-mode", r.choice(ENUM_MODES)]
    if r.random() < 0.35:
        f.append("--no-helpers")
    if r.random() < 0.15:
        f.append("--enable-builders")
    if r.random() < 0.15:
        f.append("--all-schemas")
    return f


# ------------------------------------------------------------------------------------------ environment-sensitive data
DATETIMES = ["2024-03-10T08:15:00+02:00", "2024-03-10T01:30:00-04:00", "2024-11-03T01:30:00-05:00", "2024-03-31T02:30:00+01:00",
             "2023-12-31T23:59:60Z", "2016-12-31T23:59:60+00:00", "2024-01-15T12:30:00.123456789+05:30", "2024-01-15T12:30:00.5-00:00",
             "2024-01-15T12:30:00Z", "2024-01-15t12:30:00z", "1969-12-31T23:59:59-12:00", "9999-12-31T23:59:59+14:00", "2024-02-30T25:61:00+02:00", "not a date"]
DATES = ["2024-03-10", "1970-01-01", "2024-02-29", "0001-01-01", "2024-13-40"]
TIMES = ["08:15:00", "23:59:60", "08:15:00.250", "08:15:00+02:00", "24:00:00", "8:15"]
NUMBERS = [0.1, 1e21, 1e-7, 123456789.123456789, 1234567.891, -0.0, BIG, 2 ** 64 - 1, 2 ** 53 + 1, 1000000, 1e308]   # integers stay within u64: see bigint_doc
TEXTS = ["Grüße aus Köln", "日本語テキスト", "naïve — “quoted”", "\U0001f600 emoji", "İstanbul İ ı", "tab\there", "line\nbreak"]


def temporal_doc(r=None, n=6):
    """properties, parameters and headers typed date-time / date / time / number whose `example` / `default` / `examples`
    / `const` / `enum` carry offsets, fractional and leap seconds, large and fractional numbers and non-ASCII text.
    With r = None the fixed document (every literal of the lists once); else a random selection."""
    props, params = {}, []
    def pick(lst, i):
        return lst[i % len(lst)] if r is None else r.choice(lst)
    count = max(len(DATETIMES), len(NUMBERS)) if r is None else n
    for i in range(count):
        dt, d, t, num, txt = pick(DATETIMES, i), pick(DATES, i), pick(TIMES, i), pick(NUMBERS, i), pick(TEXTS, i)
        carrier = (lambda v, j: {"example": v} if j % 3 == 0 else ({"default": v} if j % 3 == 1 else {"examples": [v]}))
        j = i if r is None else r.randint(0, 2)
        props[f"at{i}"] = {"type": "string", "format": "date-time", **carrier(dt, j)}
        props[f"on{i}"] = {"type": "string", "format": "date", **carrier(d, j + 1)}
        props[f"tm{i}"] = {"type": "string", "format": "time", **carrier(t, j + 2)}
        props[f"n{i}"] = {"type": "number", **carrier(num, j), "minimum": -num if isinstance(num, float) else 0, "maximum": num}
        props[f"i{i}"] = {"type": "integer", "format": "int64", **carrier(min(int(num), 2 ** 64 - 1) if abs(num) < 1e300 else BIG, j + 1)}
        props[f"s{i}"] = {"type": "string", "description": txt, **carrier(txt, j + 2)}
        if i < 4:
            params.append({"name": f"since{i}", "in": "query", "schema": {"type": "string", "format": "date-time", "default": dt}, "example": dt})
            params.append({"name": f"X-At-{i}", "in": "header", "schema": {"type": "string", "format": "date-time"}, "example": dt})
            params.append({"name": f"day{i}", "in": "query", "schema": {"type": "string", "format": "date", "example": d}})
            params.append({"name": f"amount{i}", "in": "query", "schema": {"type": "number", "default": num, "example": num}})
    sch = {"A": {"type": "object", "description": TEXTS[0], "properties": props, "required": [f"at{i}" for i in range(0, count, 2)]},
           "Stamp": {"type": "string", "format": "date-time", "example": DATETIMES[0], "default": DATETIMES[1]},
           "Window": {"type": "object", "properties": {"from": ref("Stamp"), "to": {"type": "array", "items": {"type": "string", "format": "date-time", "example": DATETIMES[2]}}},
                      "example": {"from": DATETIMES[0], "to": [DATETIMES[1]]}}}
    sch["A"]["properties"]["window"] = ref("Window")
    return doc(sch, "A", params)


def bigint_doc():
    """integer literals outside [i64::MIN, u64::MAX]: JSON keeps them (as floats), the YAML front end refuses them"""
    return doc({"A": {"type": "object", "properties": {"n": {"type": "integer", "example": HUGE}, "m": {"type": "number", "default": 10 ** 21, "maximum": 10 ** 30},
                                                        "k": {"type": "integer", "minimum": -9223372036854775809}}}})


def has_huge_int(v):
    if isinstance(v, bool):
        return False
    if isinstance(v, int):
        return v > 2 ** 64 - 1 or v < -2 ** 63
    if isinstance(v, dict):
        return any(has_huge_int(x) for x in v.values())
    if isinstance(v, list):
        return any(has_huge_int(x) for x in v)
    return False


TZS = ["UTC0", "XST-9", "XWT5", "Europe/Berlin", "America/New_York"]
LOCALES = ["C", "en_US.UTF-8", "de_DE.UTF-8"]


def fixed_envs():
    """the process environments every configuration is run under at least once (beside the reference one)"""
    return [
        {"TZ": "XST-9", "LANG": "de_DE.UTF-8", "LC_ALL": "de_DE.UTF-8", "COLUMNS": "40", "NO_COLOR": None, "TERM": "xterm-256color", "HOME": "<tmp>/home1", "?cwd": "<tmp>/cwd1", "?stdout": "file"},
        {"TZ": "XWT5", "LANG": "en_US.UTF-8", "LC_ALL": None, "COLUMNS": "9999", "NO_COLOR": "1", "TERM": "dumb", "HOME": "/nonexistent", "?cwd": "/", "?stdout": "pipe"},
        {"TZ": "Europe/Berlin", "LANG": "C", "LC_ALL": "C", "COLUMNS": None, "TERM": None, "HOME": None, "CLICOLOR_FORCE": "1", "?cwd": "<tmp>", "?stdout": "file"},
        {"TZ": "America/New_York", "LC_ALL": "de_DE.UTF-8", "LC_TIME": "de_DE.UTF-8", "LC_NUMERIC": "de_DE.UTF-8", "COLUMNS": "1", "LINES": "1", "?cwd": "<tmp>/cwd1", "?stdout": "pipe"},
    ]


def random_env(r):
    e = {"TZ": r.choice(TZS + [None]), "LANG": r.choice(LOCALES + [None]), "LC_ALL": r.choice(LOCALES + [None, None]),
         "COLUMNS": r.choice(["1", "40", "80", "400", "9999", None]), "NO_COLOR": r.choice(["1", None]), "TERM": r.choice(["dumb", "xterm-256color", None]),
         "HOME": r.choice(["<tmp>/home1", "/nonexistent", None]), "?cwd": r.choice(["<tmp>", "<tmp>/cwd1", "/"]), "?stdout": r.choice(["pipe", "file"])}
    if r.random() < 0.2:
        e["RUST_LOG"] = "debug"
    if r.random() < 0.2:
        e["CLICOLOR_FORCE"] = "1"
    return e


# ------------------------------------------------------------------------------------------ run configurations
def flag_configs(r, ids, thorough):
    """flag sets of the determinism comparison.  `ids` = operation ids printed by `list operations`.
    Each entry: (label, [equivalent argument lists]) — every argument list of one entry must give the same bytes
    (the same id SET in several orders)."""
    cfgs = [("default", [[]])]
    def orders(sel):
        o = [list(sel), list(reversed(sel))]
        if len(sel) > 2:
            x = list(sel); r.shuffle(x); o.append(x)
        return o
    if len(ids) >= 2:
        for k in ([2, 3, 4] if thorough else [r.choice([2, 3]), 4]):
            if len(ids) >= k:
                sel = r.sample(ids, k)
                cfgs.append((f"only{k}", [["--only", ",".join(o)] for o in orders(sel)]))
        sel = r.sample(ids, min(len(ids), r.choice([2, 3])))
        cfgs.append(("exclude", [["--exclude", ",".join(o)] for o in orders(sel)]))
        sel = r.sample(ids, min(len(ids), 3))
        cfgs.append(("only+all-schemas", [["--only", ",".join(o), "--all-schemas"] for o in orders(sel)]))
    singles = [("all-schemas", ["--all-schemas"]), ("all-headers", ["--all-headers"]), ("enum-preserve", ["--enum-mode", "preserve"]),
               ("enum-relaxed", ["--enum-mode", "relaxed"]), ("vis-crate", ["--visibility", "crate"]), ("vis-file", ["-C", "file"]),
               ("builders", ["--enable-builders"]), ("no-helpers", ["--no-helpers"]), ("odata", ["--odata-support"]),
               ("kitchen", ["--all-schemas", "--all-headers", "--enum-mode", "relaxed", "--enable-builders", "--visibility", "crate"])]
    if not thorough:
        singles = r.sample(singles, 3)
    for label, fl in singles:
        cfgs.append((label, [fl]))
    return cfgs
