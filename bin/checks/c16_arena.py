"""C16 arena (tie A, thorough tier): the emitted types are COMPILED against the documented runtime crates and
`validator::Validate::validate` is RUN on probe values; the verdicts are compared with the Lean `Sem` layer
(`acceptsTree` on the model's attributes).  Also: modules whose literals the model calls ill-typed must fail to
compile, all others must compile; and the generated client must refuse an invalid request before any I/O."""
import json, os, re, shutil, subprocess
from decimal import Decimal
import vlib
from specgen import valid_spec
from checks import c16

TEMPLATE = os.path.join(vlib.VERIF, "arena", "c16")          # committed template (Cargo.toml)
ARENA = os.path.join(vlib.CACHE, "arena-c16")                # the crate that is generated, built and run
TARGET = os.path.join(vlib.CACHE, "arena-target")
ENV = dict(os.environ, CARGO_NET_OFFLINE="true", CARGO_TERM_COLOR="never", CARGO_TARGET_DIR=TARGET)


def strip_header(code):
    return "\n".join(l for l in code.splitlines() if not l.startswith("//!") and not l.startswith("#!["))


# ---------------- best-effort "good" values (only used to build probes; every verdict is predicted by Lean) -----
def py_sat(c, v):
    if v["t"] == "num":
        d = Decimal(v["v"])
        ok = True
        if c.get("minimum") is not None:
            ok &= d >= Decimal(c["minimum"])
        if c.get("maximum") is not None:
            ok &= d <= Decimal(c["maximum"])
        if c.get("exclusiveMinimum") is not None:
            ok &= d > Decimal(c["exclusiveMinimum"])
        if c.get("exclusiveMaximum") is not None:
            ok &= d < Decimal(c["exclusiveMaximum"])
        fmt = c.get("format")
        if c16.is_int(v["v"]) and fmt in c16.RANGES:
            lo, hi = c16.RANGES[fmt]
            ok &= lo <= int(v["v"]) <= hi
        return ok
    s = v["v"]
    ok = True
    if c.get("minLength") is not None:
        ok &= len(s) >= c["minLength"]
    if c.get("maxLength") is not None:
        ok &= len(s) <= c["maxLength"]
    if c.get("pattern") is not None:
        try:
            ok &= re.search(c["pattern"], s) is not None
        except re.error:
            pass
    fmt = c.get("format")
    if fmt == "email":
        ok &= re.fullmatch(r"[a-z]+@[a-z]+\.[a-z]+", s) is not None
    if fmt in ("uri", "url"):
        ok &= s.startswith("http://")
    if fmt == "date":
        ok &= re.fullmatch(r"\d{4}-\d\d-\d\d", s) is not None
    if fmt == "date-time":
        ok &= s.endswith("Z") and "T" in s
    if fmt == "uuid":
        ok &= re.fullmatch(r"[0-9a-f-]{36}", s) is not None
    return ok


def jval(c, v):
    """probe value as JSON for serde"""
    if v["t"] == "num":
        return int(v["v"]) if c16.is_int(v["v"]) else float(v["v"])
    return v["v"]


def typed_json(c, v):
    """is the value deserialisable into the Rust type of this scalar?"""
    t, fmt = c16.ty_of(c), c.get("format")
    if v["t"] == "num":
        if t not in ("integer", "number"):
            return False
        inty = fmt in c16.RANGES if fmt else t == "integer"
        if inty:
            if not c16.is_int(v["v"]):
                return False
            lo, hi = c16.RANGES.get(fmt, c16.RANGES[None])
            return lo <= int(v["v"]) <= hi
        return True
    if t != "string":
        return False
    if fmt == "date":
        return re.fullmatch(r"\d{4}-\d\d-\d\d", v["v"]) is not None
    if fmt == "date-time":
        return re.fullmatch(r"\d{4}-\d\d-\d\dT\d\d:\d\d:\d\dZ", v["v"]) is not None
    if fmt == "uuid":
        return re.fullmatch(r"[0-9a-f]{8}-[0-9a-f]{4}-[0-9a-f]{4}-[0-9a-f]{4}-[0-9a-f]{12}", v["v"]) is not None
    return fmt not in ("byte", "binary", "time", "duration")


def leaf_probe_values(s):
    """JSON values (well-typed for serde) for a leaf member, with a flag 'good' (best effort)"""
    out = []
    if s["k"] == "prim":
        c = s["c"]
        for v in c16.scalar_vals(c):
            if typed_json(c, v):
                out.append((jval(c, v), py_sat(c, v)))
        if c16.ty_of(c) == "boolean":
            out.append((True, True))
    elif s["k"] == "arrP":
        c, it = s["c"], s["items"]
        iv = [v for v in c16.scalar_vals(it) if typed_json(it, v)]
        if c16.ty_of(it) == "boolean":
            iv = []
        goodi = next((v for v in iv if py_sat(it, v)), iv[0] if iv else None)
        lens = {0, 1}
        for kk in ("minItems", "maxItems"):
            if c.get(kk) is not None:
                lens |= {max(c[kk] - 1, 0), c[kk], c[kk] + 1}
        lenok = lambda n: (c.get("minItems") is None or n >= c["minItems"]) and (c.get("maxItems") is None or n <= c["maxItems"])
        if goodi is not None:
            for n in sorted(lens):
                out.append(([jval(it, goodi)] * n, lenok(n) and py_sat(it, goodi)))
            okn = next((n for n in sorted(lens) if lenok(n) and n > 0), 1)
            for v in iv[:12]:
                out.append(([jval(it, v)] * okn, lenok(okn) and py_sat(it, v)))
        else:
            out.append(([], lenok(0)))
    return out


def skeleton(desc, name, depth=0):
    """a value of struct `name` that is (best effort) valid; None when none can be built"""
    sch = next((s for s in desc["schemas"] if s["name"] == name), None)
    if sch is None or depth > 4:
        return None
    o = {}
    for f in sch["fields"]:
        s = f["s"]
        if s["k"] in ("prim", "arrP"):
            if not f["req"]:
                continue
            good = next((j for j, g in leaf_probe_values(s) if g), None)
            if good is None:
                return None
            o[f["name"]] = good
        elif s["k"] == "ref":
            if f["req"]:
                sub = skeleton(desc, s["to"], depth + 1)
                if sub is None:
                    return None
                o[f["name"]] = sub
        elif s["k"] == "arrR":
            if f["req"]:
                mn = s["c"].get("minItems") or 0
                sub = skeleton(desc, s["to"], depth + 1) if mn else None
                if mn and sub is None:
                    return None
                o[f["name"]] = [sub] * mn
    return o


def probes_for(desc, limit=14):
    out = []
    for sch in desc["schemas"]:
        base = skeleton(desc, sch["name"])
        if base is None:
            continue
        out.append({"ty": sch["name"], "v": base})
        for f in sch["fields"]:
            s = f["s"]
            if s["k"] in ("prim", "arrP"):
                for j, _ in leaf_probe_values(s)[:limit]:
                    out.append({"ty": sch["name"], "v": dict(base, **{f["name"]: j})})
            else:
                child = next((c for c in desc["schemas"] if c["name"] == s["to"]), None)
                cb = skeleton(desc, s["to"], 1)
                if child is None or cb is None:
                    continue
                wrap = (lambda x: x) if s["k"] == "ref" else (lambda x: [x])
                out.append({"ty": sch["name"], "v": dict(base, **{f["name"]: wrap(cb)})})
                n = 0
                for cf in child["fields"]:
                    if cf["s"]["k"] in ("prim", "arrP"):
                        for j, g in leaf_probe_values(cf["s"]):
                            if not g and n < 6:
                                n += 1
                                out.append({"ty": sch["name"], "v": dict(base, **{f["name"]: wrap(dict(cb, **{cf["name"]: j}))})})
    return out


def strings_in(v, acc):
    if isinstance(v, str):
        acc.add(v)
    elif isinstance(v, list):
        for x in v:
            strings_in(x, acc)
    elif isinstance(v, dict):
        for x in v.values():
            strings_in(x, acc)


MAIN = """#![allow(dead_code, unused_imports, unused_variables, non_snake_case, clippy::all)]
use std::io::{BufRead, Write};
%(mods)s
fn dispatch(m: u64, ty: &str, v: serde_json::Value) -> Option<bool> {
  match m {
%(arms)s
    _ => None,
  }
}
fn client_test() -> serde_json::Value {
%(client)s
}
fn main() {
  let stdin = std::io::stdin();
  let out = std::io::stdout();
  let mut out = out.lock();
  for line in stdin.lock().lines() {
    let Ok(line) = line else { break };
    if line.trim().is_empty() { continue; }
    let req: serde_json::Value = serde_json::from_str(&line).unwrap();
    if req.get("client").is_some() {
      writeln!(out, "{}", client_test()).unwrap();
      continue;
    }
    let r = dispatch(req["m"].as_u64().unwrap_or(u64::MAX), req["ty"].as_str().unwrap_or(""), req["v"].clone());
    writeln!(out, "{}", serde_json::json!({"ok": r})).unwrap();
  }
}
"""

CLIENT_TEST = """
  use cl::*;
  let rt = tokio::runtime::Builder::new_current_thread().enable_all().build().unwrap();
  rt.block_on(async {
    let c = TClient::with_base_url("http://127.0.0.1:9/").unwrap();
    let bad_param = OpRequest { path: OpRequestPath { id: "toolong".to_string() }, body: Body { x: "ok".to_string() } };
    let bad_body = OpRequest { path: OpRequestPath { id: "ok".to_string() }, body: Body { x: "toolong".to_string() } };
    let good = OpRequest { path: OpRequestPath { id: "ok".to_string() }, body: Body { x: "ok".to_string() } };
    let f = |r: anyhow::Result<OpResponse>| match r { Ok(_) => "sent-ok".to_string(), Err(e) => format!("{e:#}") };
    serde_json::json!({"bad_param": f(c.op(bad_param).await), "bad_body": f(c.op(bad_body).await), "good": f(c.op(good).await)})
  })
"""

CLIENT_DESC = {"schemas": [{"name": "Body", "fields": [{"name": "x", "req": True, "s": {"k": "prim", "c": {"ty": "string", "maxLength": 3}}}]}], "aliases": [],
               "params": [{"name": "id", "in": "path", "req": True, "s": {"k": "prim", "c": {"ty": "string", "maxLength": 3}}}], "body": "Body", "resp": None, "echo": None}


def cargo(args):
    with vlib.lock("cargo-arena"):
        shutil.copyfile(os.path.join(vlib.REPO, "Cargo.lock"), os.path.join(ARENA, "Cargo.lock"))
        p = subprocess.run(["cargo"] + args + ["--offline"], cwd=ARENA, env=ENV, capture_output=True, text=True, timeout=3000)
    return p.returncode, p.stderr


def write_crate(mods, with_client):
    src = os.path.join(ARENA, "src")
    os.makedirs(src, exist_ok=True)
    shutil.copyfile(os.path.join(TEMPLATE, "Cargo.toml"), os.path.join(ARENA, "Cargo.toml"))
    for f in os.listdir(src):
        p = os.path.join(src, f)
        shutil.rmtree(p) if os.path.isdir(p) else os.remove(p)
    decl, arms = [], []
    for i, m in mods.items():
        runs = "\n".join('      "%s" => serde_json::from_value::<%s>(v).ok().map(|x| validator::Validate::validate(&x).is_ok()),' % (t, t) for t in m["types"])
        open(os.path.join(src, "g%d.rs" % i), "w").write(
            "#![allow(dead_code, unused_imports)]\n" + m["code"] + "\npub fn run(ty: &str, v: serde_json::Value) -> Option<bool> {\n    match ty {\n" + runs + "\n      _ => None,\n    }\n}\n")
        decl.append("mod g%d;" % i)
        arms.append("    %d => g%d::run(ty, v)," % (i, i))
    client = "  serde_json::Value::Null"
    if with_client:
        os.makedirs(os.path.join(src, "cl"), exist_ok=True)
        open(os.path.join(src, "cl", "types.rs"), "w").write(with_client["types"])
        open(os.path.join(src, "cl", "client.rs"), "w").write(with_client["client"])
        open(os.path.join(src, "cl", "mod.rs"), "w").write("#![allow(dead_code, unused_imports)]\nmod types;\nmod client;\npub use types::*;\npub use client::*;\n")
        decl.append("mod cl;")
        client = CLIENT_TEST
    open(os.path.join(src, "main.rs"), "w").write(MAIN % {"mods": "\n".join(decl), "arms": "\n".join(arms), "client": client})


def run_arena(ctx, n_specs=160):
    r = ctx.rng
    descs = []
    # witnesses of the "does not compile" classes + random specs whose struct types are all bidirectional (echo = body root)
    fixed = [{"ty": "integer", "minimum": "1.5"}, {"ty": "integer", "format": "uint32", "minimum": "-1"}, {"ty": "number", "maximum": "1e-7"},
             {"ty": "integer", "maximum": "18446744073709551615"}, {"ty": "integer", "format": "uint8", "maximum": "300"},
             {"ty": "number", "maximum": "1.5e300"}, {"ty": "integer", "format": "int8", "maximum": "-200"}, {"ty": "integer", "format": "int32", "exclusiveMaximum": "2147483648"}]
    for c in fixed:
        descs.append({"schemas": [{"name": "Body", "fields": [{"name": "val", "req": False, "s": {"k": "prim", "c": c}}]}], "aliases": [], "params": [], "body": "Body", "resp": None, "echo": "Body"})
    tries = 0
    while len(descs) < n_specs + len(fixed) and tries < 2000:
        tries += 1
        d = c16.rand_desc(r)
        if d["aliases"] or d["body"] is None:
            continue
        d["resp"], d["echo"] = None, d["body"]
        try:
            valid_spec(d)
        except ValueError:
            continue
        descs.append(d)
    # 1. generate
    cases = []
    for d in descs:
        pr = probes_for(d)
        strs = set()
        for p in pr:
            strings_in(p["v"], strs)
        cases.append({"op": "valid.gen", "in": {"desc": d, "vals": [{"t": "str", "v": s} for s in sorted(strs)], "spec": valid_spec(d), "mode": "client-mod", "cfg": {}, "want": ["code"]}, "_probes": pr})
    sent = [{"op": c["op"], "in": c["in"]} for c in cases]
    triples = ctx.run_impl(sent)
    # ask the model which modules type-check (the E judge already ran on these kinds of cases; here only `typed`)
    answers = ctx.run_model([{"op": "valid.typed", "in": t["in"], "impl": {}} for t in triples])
    mods, expect_bad = {}, {}
    for i, (c, t, a) in enumerate(zip(cases, triples, answers)):
        if "code" not in t["impl"]:
            continue
        code = strip_header(t["impl"]["code"]["types"])
        types = [n for n, dv in t["impl"].get("derives", {}).items() if "Deserialize" in dv and "validator::Validate" in dv]
        m = {"code": code, "types": types, "desc": c["in"]["desc"], "probes": [p for p in c["_probes"] if p["ty"] in types], "rx": t["in"].get("rx", {})}
        (mods if a.get("model", {}).get("typed", True) else expect_bad)[i] = m
    ccase = {"op": "valid.gen", "in": {"desc": CLIENT_DESC, "vals": [], "spec": valid_spec(CLIENT_DESC), "mode": "client-mod", "cfg": {}, "want": ["code"]}}
    ct = ctx.run_impl([ccase])[0]
    with_client = {"types": strip_header(ct["impl"]["code"]["types"]), "client": strip_header(ct["impl"]["code"]["client"])}
    # 2. compile the modules predicted to type-check (all together); culprits are located from the error paths
    compile_ok = {}
    for _round in range(4):
        write_crate(mods, with_client)
        rc, err = cargo(["build"])
        if rc == 0:
            break
        locs = re.findall(r"src/g(\d+)\.rs:(\d+):", err)
        bad = {int(x) for x, _ in locs}
        if not bad:
            raise RuntimeError("arena build failed outside the generated modules:\n" + err[-3000:])
        for b in bad:
            m = mods.pop(b)
            src = open(os.path.join(ARENA, "src", "g%d.rs" % b)).read().splitlines()
            related = any("validate(" in src[int(ln) - 1] for x, ln in locs if int(x) == b and 0 < int(ln) <= len(src))
            if related:
                compile_ok[b] = (False, m)
            else:       # a compile error that does not touch a #[validate(..)] attribute is not this property's business (C01)
                ctx.note("arena: module g%d dropped, rustc error unrelated to validation attributes: %s" % (b, json.dumps(m["desc"])[:400]))
    else:
        raise RuntimeError("arena build did not converge")
    for i in mods:
        compile_ok[i] = (True, mods[i])
    # 3. run
    lines, index = [], []
    for i, m in mods.items():
        for k, p in enumerate(m["probes"]):
            lines.append(json.dumps({"m": i, "ty": p["ty"], "v": p["v"]}))
            index.append((i, k))
    lines.append(json.dumps({"client": True}))
    p = subprocess.run([os.path.join(TARGET, "debug", "arena_c16")], input="\n".join(lines) + "\n", capture_output=True, text=True, timeout=600)
    outs = [json.loads(l) for l in p.stdout.splitlines() if l.strip()]
    if len(outs) != len(lines):
        raise RuntimeError("arena answered %d of %d lines: %s" % (len(outs), len(lines), p.stderr[-500:]))
    verdicts = {}
    for (i, k), o in zip(index, outs):
        verdicts.setdefault(i, {})[k] = o["ok"]
    client_res = outs[-1]
    # 4. the modules predicted NOT to type-check must fail to compile (checked one by one)
    for i, m in list(expect_bad.items())[:12]:
        write_crate({i: m}, None)
        rc, err = cargo(["check"])
        compile_ok[i] = (rc == 0, m)
    # 5. hand everything to the Lean driver
    triples2, cases2 = [], []
    for i, (ok, m) in sorted(compile_ok.items()):
        vs = verdicts.get(i, {})
        probes = [p for k, p in enumerate(m["probes"]) if vs.get(k) is not None] if ok else []
        res = [vs[k] for k, p in enumerate(m["probes"]) if vs.get(k) is not None] if ok else []
        case = {"op": "valid.run", "in": {"desc": m["desc"], "probes": probes, "rx": m["rx"]}}
        cases2.append(case)
        triples2.append(dict(case, impl={"compiles": ok, "verdicts": res}))
    case = {"op": "valid.client", "in": {}}
    cases2.append(case)
    triples2.append(dict(case, impl=client_res))
    answers2 = ctx.run_model(triples2)
    ctx.ties["A"] = ctx.ties.get("A", 0) + len(cases2)
    ctx.extra["arena"] = {"modules_compiled": sum(1 for ok, _ in compile_ok.values() if ok), "modules_rejected_by_rustc": sum(1 for ok, _ in compile_ok.values() if not ok),
                          "probes_run": sum(len(t["impl"].get("verdicts", [])) for t in triples2 if "verdicts" in t["impl"]), "client": client_res}
    ctx.classify(list(zip(cases2, triples2, answers2)), shrink=False, tie="A")
