"""C07 — output is closed under references for every selection of operations."""
import json, re
import vlib
from checks.c09 import vlib_corpus
from graphgen import *

# the last two DESELECT the operation whose path item holds the reference (op0 on /r) and keep the other one: whatever only /r
# reaches — through the operation or through its path item — must then NOT be emitted (converse half of the property)
SCOPES = [("default", {}, None, None), ("all", {"all_schemas": True}, None, None), ("only", {}, ["op0"], None), ("exclude", {}, None, ["op1"]),
          ("only_other", {}, ["op1"], None), ("exclude_owner", {}, None, ["op0"])]


def prepare(case):
    d = case["in"]
    if "gops" in d or "dbase" in d:
        return prepare_multi(case)
    if "position" in d:
        spec = position_spec(d["position"], d["tkind"])
    else:
        names = d["names"]
        assert names and all(e[0] in names and e[2] in names and e[1] in KINDS + KINDS_EXTRA for e in d["edges"]) and all(x in names for x in d.get("roots") or []) and d.get("roots")
        assert d.get("mode", "client-mod") in ("client-mod", "server-mod") and not has_allof_cycle(names, [tuple(e) for e in d["edges"]])
        spec = graph_spec(d["names"], [tuple(e) for e in d["edges"]], d.get("roots"))
    assert d.get("scope", "default") in [x[0] for x in SCOPES]
    sc = dict((s[0], s) for s in SCOPES)[d.get("scope", "default")]
    base = {"judges": ["closed", "orphans"], "spec": spec, "cfg": sc[1], "only": sc[2], "exclude": sc[3], "mode": d.get("mode", "client-mod")}
    base["schemas"] = spec["components"]["schemas"]
    base["ops"] = selected_ops(spec, sc[2], sc[3])
    base["path_params"] = [item.get("parameters", []) for item in spec["paths"].values() if any(op in base["ops"] for m, op in item.items() if m != "parameters")]
    return {"op": case["op"], "in": dict(d, **base)}


def prepare_multi(case):
    """documents with several operations: groups of equal response shapes / discriminated bases whose mapping
    is spelled with bare names or pointers.  The selection is part of the primary data (`scope` + `sel`)."""
    d = case["in"]
    if "gops" in d:
        ids = [g[0] for g in d["gops"]]
        assert len(ids) >= 1 and len(set(ids)) == len(ids) and all(re.fullmatch(r"[a-z][a-z0-9]*", i) for i in ids)
        assert all(g[1] is None or re.fullmatch(r"(arr:|\+404:)?[A-Z][A-Za-z0-9]*", g[1]) for g in d["gops"])
        assert all(re.fullmatch(r"[A-Z][A-Za-z0-9]*", n) and st in INLINE_STYLES for n, st in (d.get("inl") or {}).items())
        spec = groups_spec(d)
    else:
        assert re.fullmatch(r"[A-Z][A-Za-z0-9]*", d["dbase"]) and d["children"]
        names = [c[0] for c in d["children"]]
        assert len(set(names + [d["dbase"], "Holder"])) == len(names) + 2 and all(re.fullmatch(r"[A-Z][A-Za-z0-9]*", n) for n in names)
        assert all(c[1] in ("bare", "ptr") and isinstance(c[2], bool) for c in d["children"])
        spec = discmap_spec(d)
    scope = d.get("scope", "default")
    assert scope in ("default", "all", "only", "exclude") and d.get("mode", "client-mod") in ("client-mod", "server-mod")
    sel = d.get("sel") or []
    assert all(x in op_ids(spec) for x in sel) and (scope not in ("only", "exclude") or sel)
    only, exclude = (sel if scope == "only" else None), (sel if scope == "exclude" else None)
    base = {"judges": ["closed", "orphans"], "spec": spec, "cfg": {"all_schemas": True} if scope == "all" else {}, "only": only, "exclude": exclude, "mode": d.get("mode", "client-mod")}
    base["schemas"] = spec["components"]["schemas"]
    base["ops"] = selected_ops(spec, only, exclude)
    base["path_params"] = []
    base["sel_ids"] = [op["operationId"] for op in base["ops"]]
    return {"op": case["op"], "in": dict(d, **base)}


def selections(ids, r, quick):
    """(scope, sel) pairs: default, --all-schemas, --exclude of every single operation and of some pairs, --only of
    every subset that leaves one operation out and of some smaller ones"""
    sels = [("default", None), ("all", None)]
    rest = [("exclude", [i]) for i in ids] + [("only", [j for j in ids if j != i]) for i in ids]
    for _ in range(4):
        k = r.randint(1, max(1, len(ids) - 1))
        rest.append((r.choice(["only", "exclude"]), sorted(r.sample(ids, k))))
    rest = [x for x in rest if x[1]]
    return sels + (r.sample(rest, min(3, len(rest))) if quick else rest)


def multi_cases(ctx):
    r = ctx.rng
    out = []
    def add(d, ids):
        for scope, sel in selections(ids, r, ctx.quick):
            for op in ("graph.emit", "graph.analyze"):
                if op == "graph.analyze" and scope == "all":
                    continue
                dd = dict(d, scope=scope, mode=r.choice(["client-mod", "client-mod", "server-mod"]))
                if sel is not None:
                    dd["sel"] = sel
                out.append({"op": op, "in": dd})
    # (a) four operations, every assignment to two response shapes (all interleavings of the two groups), both
    # orders of the operation ids, inline member types on either shape
    ids4 = ["opa", "opb", "opc", "opd"]
    for bits in range(16):
        shapes = [("Alpha", "Beta")[(bits >> i) & 1] for i in range(4)]
        for perm in (ids4, ids4[::-1]):
            for inl in ({"Alpha": "both", "Beta": "none"}, {"Alpha": "none", "Beta": "enum"}):
                add({"gops": [[perm[i], shapes[i]] for i in range(4)], "inl": inl}, perm)
    # five/six operations over three shapes, bodyless ones and variations of a shape in between
    pool = ["Alpha", "Beta", "Gamma", None, "arr:Alpha", "+404:Beta"]
    for _ in range(24 if ctx.quick else 400):
        n = r.randint(5, 6)
        ids = r.sample(["opa", "opb", "opc", "opd", "ope", "opf", "op10", "op2"], n)
        two = r.sample(pool[:3], 2)
        shapes = [two[0], two[1], two[0], two[1]] + [r.choice(pool) for _ in range(n - 4)]
        r.shuffle(shapes)
        inl = {s: r.choice(INLINE_STYLES) for s in ("Alpha", "Beta", "Gamma") if any(x and x.endswith(s) for x in shapes)}
        add({"gops": [[ids[i], shapes[i]] for i in range(n)], "inl": inl, "qenum": r.sample(ids, r.randint(0, 2))}, ids)
    # (b) discriminated base, two children: every combination of spelling x "child has an operation of its own"
    for sp0 in ("bare", "ptr"):
        for sp1 in ("bare", "ptr"):
            for own0 in (False, True):
                for own1 in (False, True):
                    for holder in (False, True):
                        d = {"dbase": "Pet", "children": [["Cat", sp0, own0], ["Dog", sp1, own1]], "holder": holder}
                        add(d, op_ids(discmap_spec(d)))
    for _ in range(10 if ctx.quick else 200):
        kids = r.sample(["Cat", "Dog", "Eel", "Fox"], 3)
        d = {"dbase": r.choice(["Pet", "Animal"]), "children": [[k, r.choice(["bare", "ptr"]), r.random() < 0.6] for k in kids], "holder": r.random() < 0.3}
        add(d, op_ids(discmap_spec(d)))
    return out


def cases(ctx):
    r = ctx.rng
    out = []
    for pos in POSITIONS:
        for tk in TARGET_KINDS:
            scopes = SCOPES if not ctx.quick else [SCOPES[0]] + r.sample(SCOPES[1:], 1)
            if ctx.quick and pos == "pathparam" and tk in ("object", "strenum"):
                scopes = SCOPES          # the path item's own parameters under a selection that drops all its operations
            for sc in scopes:
                for op in ("graph.emit", "graph.analyze"):
                    if op == "graph.analyze" and sc[0] == "all":
                        continue
                    out.append({"op": op, "in": {"position": pos, "tkind": tk, "scope": sc[0]}})
    # a schema whose conversion fails (skipped with a warning) but which other types mention
    for pos in ("property", "item", "respbody", "reqbody", "oneof"):
        out.append({"op": "graph.emit", "in": {"position": pos, "tkind": "extunion", "scope": "default"}})
    # status class x media category of the response / request body that carries the only reference to Tgt
    from graphgen import MEDIA_POSITIONS
    mp = MEDIA_POSITIONS if not ctx.quick else r.sample(MEDIA_POSITIONS, 40)
    for pos in mp:
        for tk in (["object", "strenum", "union", "arr"] if not ctx.quick else [r.choice(["object", "object", "strenum", "union", "arr"])]):
            sc = r.choice(SCOPES)
            for mode in (["client-mod", "server-mod"] if not ctx.quick else [r.choice(["client-mod", "server-mod"])]):
                out.append({"op": "graph.emit", "in": {"position": pos, "tkind": tk, "scope": sc[0], "mode": mode}})
    n = 150 if ctx.quick else 1500
    for _ in range(n):
        names = ["A", "B", "C", "D", "E"][: r.randint(2, 5)]
        if r.random() < 0.5:
            names = names[:-2] + r.sample(ODD_NAMES, 2) if len(names) > 2 else r.sample(ODD_NAMES, 2)
        edges = []
        for _ in range(r.randint(1, 6)):
            e = [r.choice(names), r.choice(KINDS + KINDS_EXTRA), r.choice(names)]
            if e not in edges:
                edges.append(e)
        if has_allof_cycle(names, [tuple(e) for e in edges]):
            continue
        roots = r.sample(names, r.randint(1, 2))
        for op in ("graph.emit", "graph.analyze"):
            out.append({"op": op, "in": {"names": names, "edges": edges, "roots": roots, "scope": r.choice(["default", "default", "only", "exclude"] + (["all"] if op == "graph.emit" else [])), "mode": r.choice(["client-mod", "server-mod"])}})
    return out


def run(ctx):
    proofs_ok, driver_ok = ctx.build_lean(["Oas3Model.Props.C07"])
    if proofs_ok:
        ctx.audit("Oas3Model.Props.C07")
        if not ctx.quick:
            ctx.leanchecker("Oas3Model.Props.C07")
    ctx.prepare = prepare
    if driver_ok and ctx.build_harness(["k_gen"]):
        allc = vlib_corpus(ctx) + cases(ctx) + multi_cases(ctx)
        B = 300
        for i in range(0, len(allc), B):
            ctx.classify(ctx.evaluate(allc[i:i + B]), tie="K+E")
            if len(ctx.violations) >= 3:
                break
    return ctx.finish(
        checker_cmd="lake build Oas3Model.Props.C07 && #print axioms on every theorem" + ("" if ctx.quick else " && leanchecker"),
        trusted_base=vlib.TRUSTED_BASE + ["petgraph DFS/SCC are replaced in the model by a checked closure (proved sound and minimal) and compared with the real results on every case", "syn-based extraction of defined items and mentioned type paths; external crates recognised by a prefix allow-list"],
        rule="the 12 reference positions x 10 kinds of referenced schema x {default, --all-schemas, --only, --exclude} matrix of the quantifier (all 480 thorough; default + 1 sampled scope quick) + random compositions of 2-5 schemas over the 8 edge kinds + documents with 4-6 operations whose responses repeat in two or more interleaved groups (all 16 assignments of 4 operations to two shapes x id order x inline member types; random 5-6 operation documents) and discriminated bases whose mapping is spelled with bare names / pointers / both, each under default, --all-schemas, --exclude and --only subsets (model: the surviving response enums); K: SchemaRegistry dependency map / cyclic set / reachable set vs the model; E: emitted files parsed with syn, every mentioned type name must be defined exactly once, every emitted type must be used by a selected operation; non-trivial = >=1 schema; distinct by input hash")
