"""C07 — output is closed under references for every selection of operations."""
import json
import vlib
from checks.c09 import vlib_corpus
from graphgen import *

SCOPES = [("default", {}, None, None), ("all", {"all_schemas": True}, None, None), ("only", {}, ["op0"], None), ("exclude", {}, None, ["op1"])]


def prepare(case):
    d = case["in"]
    if "position" in d:
        spec = position_spec(d["position"], d["tkind"])
    else:
        names = d["names"]
        assert names and all(e[0] in names and e[2] in names and e[1] in KINDS + KINDS_EXTRA for e in d["edges"]) and all(x in names for x in d.get("roots") or []) and d.get("roots")
        assert d.get("mode", "client-mod") in ("client-mod", "server-mod") and not has_allof_cycle(names, [tuple(e) for e in d["edges"]])
        spec = graph_spec(d["names"], [tuple(e) for e in d["edges"]], d.get("roots"))
    assert d.get("scope", "default") in ("default", "all", "only", "exclude")
    sc = dict((s[0], s) for s in SCOPES)[d.get("scope", "default")]
    base = {"judges": ["closed", "orphans"], "spec": spec, "cfg": sc[1], "only": sc[2], "exclude": sc[3], "mode": d.get("mode", "client-mod")}
    base["schemas"] = spec["components"]["schemas"]
    base["ops"] = selected_ops(spec, sc[2], sc[3])
    base["path_params"] = [item.get("parameters", []) for item in spec["paths"].values() if any(op in base["ops"] for m, op in item.items() if m != "parameters")]
    return {"op": case["op"], "in": dict(d, **base)}


def cases(ctx):
    r = ctx.rng
    out = []
    for pos in POSITIONS:
        for tk in TARGET_KINDS:
            scopes = SCOPES if not ctx.quick else [SCOPES[0]] + r.sample(SCOPES[1:], 1)
            for sc in scopes:
                for op in ("graph.emit", "graph.analyze"):
                    if op == "graph.analyze" and sc[0] == "all":
                        continue
                    out.append({"op": op, "in": {"position": pos, "tkind": tk, "scope": sc[0]}})
    n = 150 if ctx.quick else 1500
    for _ in range(n):
        names = ["A", "B", "C", "D", "E"][: r.randint(2, 5)]
        if r.random() < 0.5:
            names = names[:-2] + r.sample(ODD_NAMES, 2) if len(names) > 2 else r.sample(ODD_NAMES, 2)
        edges = []
        for _ in range(r.randint(1, 6)):
            e = [r.choice(names), r.choice(KINDS + KINDS_EXTRA), r.choice(names)]
            if e not in edges:
                edges.append(e)
        if has_allof_cycle(names, [tuple(e) for e in edges]):
            continue
        roots = r.sample(names, r.randint(1, 2))
        for op in ("graph.emit", "graph.analyze"):
            out.append({"op": op, "in": {"names": names, "edges": edges, "roots": roots, "scope": r.choice(["default", "default", "only", "exclude"] + (["all"] if op == "graph.emit" else [])), "mode": r.choice(["client-mod", "server-mod"])}})
    return out


def run(ctx):
    proofs_ok, driver_ok = ctx.build_lean(["Oas3Model.Props.C07"])
    if proofs_ok:
        ctx.audit("Oas3Model.Props.C07")
        if not ctx.quick:
            ctx.leanchecker("Oas3Model.Props.C07")
    ctx.prepare = prepare
    if driver_ok and ctx.build_harness(["k_gen"]):
        allc = vlib_corpus(ctx) + cases(ctx)
        B = 300
        for i in range(0, len(allc), B):
            ctx.classify(ctx.evaluate(allc[i:i + B]), tie="K+E")
            if len(ctx.violations) >= 3:
                break
    return ctx.finish(
        checker_cmd="lake build Oas3Model.Props.C07 && #print axioms on every theorem" + ("" if ctx.quick else " && leanchecker"),
        trusted_base=vlib.TRUSTED_BASE + ["petgraph DFS/SCC are replaced in the model by a checked closure (proved sound and minimal) and compared with the real results on every case", "syn-based extraction of defined items and mentioned type paths; external crates recognised by a prefix allow-list"],
        rule="the 12 reference positions x 10 kinds of referenced schema x {default, --all-schemas, --only, --exclude} matrix of the quantifier (all 480 thorough; default + 1 sampled scope quick) + random compositions of 2-5 schemas over the 8 edge kinds; K: SchemaRegistry dependency map / cyclic set / reachable set vs the model; E: emitted files parsed with syn, every mentioned type name must be defined exactly once, every emitted type must be used by a selected operation; non-trivial = >=1 schema; distinct by input hash")
