"""C06 — client and server generated from one spec interoperate losslessly."""
import itertools, json
import vlib
from checks.c09 import vlib_corpus
from checks.c04 import LAYOUTS, KEYS7, MORE_MEDIA
from specgen import resp_spec, op_spec


def prepare(case):
    d = case["in"]
    r = d["responses"]
    spec = resp_spec(r)
    if d.get("op"):
        o = dict(d["op"]); o["responses"] = spec["paths"]["/op"]["get"]["responses"]; o["opid"] = "op"
        spec = op_spec(o)
    return {"op": case["op"], "in": {"responses": r, "spec": spec, "cfg": d.get("cfg", {}), "opreq": "OpRequest", "openum": "OpResponse"}}


def cases(ctx):
    r = ctx.rng
    out = []
    combos = []
    for k in range(1, len(KEYS7) + 1):
        for sub in itertools.combinations(KEYS7, k):
            for lname in LAYOUTS:
                combos.append((sub, lname))
    if ctx.quick:
        combos = r.sample(combos, 200)
    for sub, lname in combos:
        out.append({"op": "interop.resp", "in": {"responses": [[k, LAYOUTS[lname]] for k in sub]}})
    for _ in range(200 if ctx.quick else 2000):
        keys = r.sample(KEYS7 + ["204", "302", "3XX", "500", "1XX", "418", "299"], r.randint(1, 5))
        resp = [[k, r.choice(list(LAYOUTS.values()) + [[r.choice(MORE_MEDIA[:6])]])] for k in keys]
        cfg = {"enum_mode": r.choice(["merge", "preserve", "relaxed"]), "builders": r.random() < 0.3, "no_helpers": r.random() < 0.3}
        op = None
        if r.random() < 0.5:
            op = {"method": r.choice(["get", "post", "put"]), "path": r.choice(["/op", "/a/{id}", "/a/x-{y}"]), "params": [{"name": n, "in": "path", "level": "op", "type": "string"} for n in (["id"] if "{id}" in "/a/{id}" else [])][:0], "body": None}
            import re
            op["params"] = [{"name": n, "in": "path", "level": "op", "type": "string"} for n in re.findall(r"\{([^}]*)\}", op["path"])] + ([{"name": "q-x", "in": "query", "level": "op", "type": "string"}] if r.random() < 0.5 else [])
            if op["method"] != "get" and r.random() < 0.5:
                op["body"] = {"content": [["application/json", "ref:Pet"]], "required": True}
        out.append({"op": "interop.resp", "in": {"responses": resp, "cfg": cfg, "op": op}})
    return out


def run(ctx):
    ctx.translate(["status", "naming"])
    proofs_ok, driver_ok = ctx.build_lean(["Oas3Model.Props.C06"])
    if proofs_ok:
        ctx.audit("Oas3Model.Props.C06")
        if not ctx.quick:
            ctx.leanchecker("Oas3Model.Props.C06")
    ctx.prepare = prepare
    if driver_ok and ctx.build_harness(["k_gen"]):
        allc = vlib_corpus(ctx) + cases(ctx)
        B = 300
        for i in range(0, len(allc), B):
            ctx.classify(ctx.evaluate(allc[i:i + B]), tie="E")
            if len(ctx.violations) >= 3:
                break
    return ctx.finish(
        checker_cmd="lake build Oas3Model.Props.C06 && #print axioms on every theorem" + ("" if ctx.quick else " && leanchecker"),
        trusted_base=vlib.TRUSTED_BASE + ["composition of the C03/C04/C05 models; TCP/HTTP framing, serde encoding of payloads and axum extractors are not modelled", "an absent Content-Type is read by the client as application/json (as in the emitted code)"],
        rule="one responses object (every non-empty subset of {200,201,404,2XX,4XX,5XX,default} x 5 media layouts: 635 thorough / 200 sampled quick, + random key sets, odd media, enum-mode/builders/helpers configurations, path/query/body shapes) through TWO separate generator runs (client-mod, server-mod); each server variant's (status, encoding) is fed to the client's emitted chain; wire shapes of all types compared between the two runs; non-trivial = >=1 key; distinct by input hash",
        assumptions=["variant names identify variants across the two runs (same pipeline, same names: checked by the shape comparison)"])
