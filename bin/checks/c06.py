"""C06 — client and server generated from one spec interoperate losslessly."""
import itertools, json
import vlib
from checks.c09 import vlib_corpus
from checks.c04 import LAYOUTS, KEYS7, MORE_MEDIA
from specgen import resp_spec, op_spec, base_spec, schema_of


def req_param_schema(p):
    t = p.get("type", "string")
    if t == "enum":
        return {"type": "string", "enum": list(p.get("enum") or ["a", "b"])}
    if t == "enumarray":
        return {"type": "array", "items": {"type": "string", "enum": list(p.get("enum") or ["a", "b"])}}
    if t == "array":
        return {"type": "array", "items": {"type": "string"}}
    if t == "intarray":
        return {"type": "array", "items": {"type": "integer"}}
    return {"type": t}


def req_spec(ops):
    """request-side cases: operations [{opid, method, path, params:[{name,in,level,type,enum?,required?,style?,explode?}], body}]
    -> one OpenAPI document (path-level parameters go to the path item)."""
    s = base_spec()
    for d in ops:
        op = {"operationId": d.get("opid", "op"), "responses": {"200": {"description": "ok"}}}
        item = s["paths"].setdefault(d["path"], {})
        for p in d.get("params", []):
            o = {"name": p["name"], "in": p["in"], "schema": req_param_schema(p)}
            if p.get("required") or p["in"] == "path":
                o["required"] = True
            for k in ("style", "explode"):
                if p.get(k) is not None:
                    o[k] = p[k]
            if p.get("level") == "path":
                if o not in item.setdefault("parameters", []):
                    item["parameters"].append(o)
            else:
                op.setdefault("parameters", []).append(o)
        b = d.get("body")
        if b:
            content = {}
            for ct, kind in b["content"]:
                m = {}
                sch = schema_of(kind)
                if sch is not None:
                    m["schema"] = sch
                content[ct] = m
            op["requestBody"] = {"content": content}
            if b.get("required"):
                op["requestBody"]["required"] = True
        item[d["method"]] = op
    return s


def prepare(case):
    if case["op"] == "interop.req":
        d = case["in"]
        return {"op": case["op"], "in": {"ops": d["ops"], "cfg": d.get("cfg", {}), "spec": req_spec(d["ops"])}}
    if case["op"] != "interop.resp":
        return case
    d = case["in"]
    r = d["responses"]
    spec = resp_spec(r)
    if d.get("op"):
        o = dict(d["op"]); o["responses"] = spec["paths"]["/op"]["get"]["responses"]; o["opid"] = "op"
        spec = op_spec(o)
    return {"op": case["op"], "in": {"responses": r, "spec": spec, "cfg": d.get("cfg", {}), "opreq": "OpRequest", "openum": "OpResponse"}}


def cases(ctx):
    r = ctx.rng
    out = []
    combos = []
    for k in range(1, len(KEYS7) + 1):
        for sub in itertools.combinations(KEYS7, k):
            for lname in LAYOUTS:
                combos.append((sub, lname))
    if ctx.quick:
        combos = r.sample(combos, 200)
    for sub, lname in combos:
        out.append({"op": "interop.resp", "in": {"responses": [[k, LAYOUTS[lname]] for k in sub]}})
    for _ in range(200 if ctx.quick else 2000):
        keys = r.sample(KEYS7 + ["204", "302", "3XX", "500", "1XX", "418", "299"], r.randint(1, 5))
        resp = [[k, r.choice(list(LAYOUTS.values()) + [[r.choice(MORE_MEDIA[:6])]])] for k in keys]
        cfg = {"enum_mode": r.choice(["merge", "preserve", "relaxed"]), "builders": r.random() < 0.3, "no_helpers": r.random() < 0.3}
        op = None
        if r.random() < 0.5:
            op = {"method": r.choice(["get", "post", "put"]), "path": r.choice(["/op", "/a/{id}", "/a/x-{y}"]), "params": [{"name": n, "in": "path", "level": "op", "type": "string"} for n in (["id"] if "{id}" in "/a/{id}" else [])][:0], "body": None}
            import re
            op["params"] = [{"name": n, "in": "path", "level": "op", "type": "string"} for n in re.findall(r"\{([^}]*)\}", op["path"])] + ([{"name": "q-x", "in": "query", "level": "op", "type": "string"}] if r.random() < 0.5 else [])
            if op["method"] != "get" and r.random() < 0.5:
                op["body"] = {"content": [["application/json", "ref:Pet"]], "required": True}
        out.append({"op": "interop.resp", "in": {"responses": resp, "cfg": cfg, "op": op}})
    return out


# ---- request side ------------------------------------------------------------------------------
# one template per "shape class"; within one case the templates are chosen with pairwise different shapes
REQ_TEMPLATES = [
    "/", "/items", "/items/", "/a/{id}", "/a/{id}/", "/pets/{petId}/toys/{toy}", "/b/x-{id}", "/v1/users/{user_id}/posts",
    "/c/{type}", "/d/{id}.json", "/e/{a}:{b}", "/f/x{p}y", "/caf\u00e9/{id}", "/g h/{id}", "/i/y-{match}", "/j/{Id}/k/{ID2}", "/l.m/n_o~p",
    "/q/a%b", "/r/{self}", "/s/t-u/{X-Y}",
]
REQ_ENUMS = [["{first} {last}", "plain", "{last}-{first}"], ["{email}", "id", "a{b", "c}d"], ["DESC", "asc"], ["Premium", "basic"], ["A", "a", "b"], ["low", "mid", "high"], ["UP", "Up", "up"], ["one"], ["x-1", "X_2"], ["Desc", "DESC", "other"]]
REQ_QNAMES = ["q", "limit", "sort-Order", "page size", "type", "Filter", "a.b", "tags", "ids"]
REQ_HNAMES = ["X-Trace", "X-Request-Id", "x-sort", "X-API-Version", "Accept-Language", "X_Only", "If-Match"]
REQ_BODIES = [["application/json", "ref:Pet"], ["application/x-www-form-urlencoded", "ref:Pet"], ["text/plain", "string"], ["application/octet-stream", "string"],
              ["application/vnd.x+json", "ref:Pet"]]


def req_params(r, names, loc, lo, hi):
    out = []
    for n in r.sample(names, min(len(names), r.randint(lo, hi))):
        t = r.choice(["string", "string", "integer", "boolean", "enum", "enum", "array", "intarray", "enumarray"])
        p = {"name": n, "in": loc, "level": r.choice(["op", "op", "path"]), "type": t, "required": r.random() < 0.4}
        if t in ("enum", "enumarray"):
            p["enum"] = r.choice(REQ_ENUMS)
        if t in ("array", "intarray", "enumarray") and loc == "query":
            p["style"] = r.choice([None, "form", "spaceDelimited", "pipeDelimited"])
            p["explode"] = r.choice([None, True, False, False])
        out.append(p)
    return out


def req_op(r, i, path):
    import re
    params = []
    for n in dict.fromkeys(re.findall(r"\{([^}]*)\}", path)):
        if r.random() < 0.92:
            t = r.choice(["string", "string", "integer", "enum", "boolean"])
            p = {"name": n, "in": "path", "level": r.choice(["op", "path"]), "type": t}
            if t == "enum":
                p["enum"] = r.choice(REQ_ENUMS)
            params.append(p)
    params += req_params(r, REQ_QNAMES, "query", 0, 3) + req_params(r, REQ_HNAMES, "header", 0, 3)
    m = r.choice(["get", "get", "post", "put", "delete", "patch", "head"])
    body = None
    if m in ("post", "put", "patch") and r.random() < 0.7:
        body = {"content": [r.choice(REQ_BODIES)], "required": r.random() < 0.6}
        if r.random() < 0.2:
            body["content"].append(r.choice(REQ_BODIES))
            if body["content"][0][0] == body["content"][1][0]:
                body["content"].pop()
    return {"opid": r.choice(["get", "list", "create", "op"]) + r.choice(["Pet", "Item", "Thing"]) + str(i), "method": m, "path": path, "params": params, "body": body}


def req_shape(t):
    import re
    return re.sub(r"\{[^}]*\}", "{}", t).rstrip("/") or "/"


def req_cases(ctx):
    r = ctx.rng
    out = []
    # every template alone, plain and with one parameter of each location, under each enum mode
    for t in REQ_TEMPLATES:
        for em in ("merge", "preserve", "relaxed"):
            import re
            ps = [{"name": n, "in": "path", "level": "op", "type": "string"} for n in dict.fromkeys(re.findall(r"\{([^}]*)\}", t))]
            out.append({"op": "interop.req", "in": {"ops": [{"opid": "op", "method": "get", "path": t, "params": ps, "body": None}], "cfg": {"enum_mode": em}}})
            if ctx.quick:
                break
    for vals in REQ_ENUMS:
        for em in ("merge", "preserve", "relaxed"):
            for loc in ("header", "query", "path"):
                ps = [{"name": "e", "in": loc, "level": "op", "type": "enum", "enum": vals, "required": True}]
                out.append({"op": "interop.req", "in": {"ops": [{"opid": "op", "method": "get", "path": "/e/{e}" if loc == "path" else "/e", "params": ps, "body": None}], "cfg": {"enum_mode": em}}})
    for ct in REQ_BODIES:
        for req in (True, False):
            out.append({"op": "interop.req", "in": {"ops": [{"opid": "op", "method": "post", "path": "/b", "params": [], "body": {"content": [ct], "required": req}}], "cfg": {}}})
    for _ in range(150 if ctx.quick else 2500):
        n = r.choice([1, 1, 1, 2, 3])
        ts, seen = [], set()
        for t in r.sample(REQ_TEMPLATES, len(REQ_TEMPLATES)):
            if req_shape(t) not in seen and len(ts) < n:
                # special templates (known-finding shapes) are drawn less often
                if REQ_TEMPLATES.index(t) >= 8 and r.random() < 0.6:
                    continue
                seen.add(req_shape(t)); ts.append(t)
        cfg = {"enum_mode": r.choice(["merge", "preserve", "relaxed"]), "builders": r.random() < 0.3, "no_helpers": r.random() < 0.3}
        out.append({"op": "interop.req", "in": {"ops": [req_op(r, i, t) for i, t in enumerate(ts)], "cfg": cfg}})
    # K: the Lean route matcher against the real matchit
    segs_p = ["a", "{x}", "x-{y}", "{z}.json", "{u}:{v}", "", "b c", "k{w}"]
    segs_v = ["a", "5", "x-5", "x-", "q.json", "1:2", "", "b c", "b%20c", "k9", "k"]
    for _ in range(300 if ctx.quick else 3000):
        pat = "/" + "/".join(r.choice(segs_p) for _ in range(r.randint(1, 3)))
        path = "/" + "/".join(r.choice(segs_v) for _ in range(r.randint(1, 3)))
        out.append({"op": "interop.req.route", "in": {"patterns": [pat], "path": path}})
    return out


def run(ctx):
    ctx.translate(["status", "naming"])
    proofs_ok, driver_ok = ctx.build_lean(["Oas3Model.Props.C06"])
    if proofs_ok:
        ctx.audit("Oas3Model.Props.C06")
        if not ctx.quick:
            ctx.leanchecker("Oas3Model.Props.C06")
    ctx.prepare = prepare
    if driver_ok and ctx.build_harness(["k_gen"]):
        allc = vlib_corpus(ctx) + cases(ctx) + req_cases(ctx)
        B = 300
        for i in range(0, len(allc), B):
            ctx.classify(ctx.evaluate(allc[i:i + B]), tie="E")
            if len(ctx.violations) >= 3:
                break
    return ctx.finish(
        checker_cmd="lake build Oas3Model.Props.C06 && #print axioms on every theorem" + ("" if ctx.quick else " && leanchecker"),
        trusted_base=vlib.TRUSTED_BASE + ["composition of the C03/C04/C05 models; TCP/HTTP framing, serde encoding of payloads and axum extractors are not modelled", "an absent Content-Type is read by the client as application/json (as in the emitted code)",
                                             "request side: syn extraction of both emitted halves (harness/src/k_req.rs; unreadable constructs fail the judge); axum/matchit route semantics as stated in Model/ReqInterop.lean, compared with the real matchit crate on every run, not verified; std Display/FromStr of integers/booleans, serde_urlencoded and axum extractor internals beyond names/kinds, HTTP framing are not modelled"],
        rule="one responses object (every non-empty subset of {200,201,404,2XX,4XX,5XX,default} x 5 media layouts: 635 thorough / 200 sampled quick, + random key sets, odd media, enum-mode/builders/helpers configurations, path/query/body shapes) through TWO separate generator runs (client-mod, server-mod); each server variant's (status, encoding) is fed to the client's emitted chain; wire shapes of all types compared between the two runs; non-trivial = >=1 key; distinct by input hash. REQUEST side (interop.req): 20 path templates (plain, parameters, prefixed parameter, trailing slash, root, keyword names, suffix/multi-parameter segments, literals needing encoding) x 0-3 parameters per location (path/query/header) at operation and path-item level x string/integer/boolean/enum (8 value sets incl. upper/mixed/lower case and case-only differences)/arrays with styles x bodies (json/form/text/octet-stream, required or not) x {enum mode, builders, helpers}, 1-3 operations per case, client-mod and server-mod generated separately and the extracted facts judged by reqInteropOk; interop.req.route: random (pattern, path) pairs through the real matchit crate vs the Lean routeMatch",
        assumptions=["variant names identify variants across the two runs (same pipeline, same names: checked by the shape comparison)"])
