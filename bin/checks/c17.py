"""C17 — schema defaults are honoured wherever a value is filled in.

Ties:  K  dflt.literal  real `json_to_rust_literal` on (JSON value x TypeRef), token stream parsed back
          dflt.extract  real `FieldConverter::extract_default_value` on schema objects
       E  dflt.member   real generator (in-process) on a spec with one struct; emitted `#[default(..)]`,
                        `#[builder(..)]`, field type, struct-level `#[serde(default)]`, derives, and the
                        `#[default]` variant / fields of the member's generated type, read with syn;
                        JUDGED through the trusted semantics of those attributes (Sem/Defaults.lean)
       E  dflt.doc      real generator (in-process) on documents with SEVERAL sites (component structs, inline objects at
                        sibling properties / different holders / array items, query / header parameter structs) for
                        {types, client-mod, server-mod} x {request only, response only, both, parameter, unreferenced}:
                        every site path is followed through the emitted field types to the struct it resolves to; judged
                        per site on the derives and attributes that struct really carries (if it derives Deserialize,
                        decode-omitted must give the default declared AT THAT SITE), DESIGN 12.10
       A  dflt.run      (thorough) the emitted types compiled in an arena crate against the documented
                        runtime crates and EXECUTED: decode of a document omitting the member,
                        `T::default()`, `T::builder().build()`, re-encoding — judged directly, and
                        compared with Sem's prediction.
"""
import itertools, json, os, re, shutil
import vlib
from checks.c09 import vlib_corpus
from specgen import dflt_spec, dflt_custom_name, dflt_doc_spec, dflt_doc_sites, _dflt_obj_schema

INT_FORMATS = [None, "int32", "int64", "int8", "int16", "uint8", "uint16", "uint32", "uint64"]
INT_RANGE = {None: (-2**63, 2**63 - 1), "int64": (-2**63, 2**63 - 1), "int32": (-2**31, 2**31 - 1), "int16": (-2**15, 2**15 - 1),
             "int8": (-128, 127), "uint8": (0, 255), "uint16": (0, 65535), "uint32": (0, 2**32 - 1), "uint64": (0, 2**64 - 1)}
NUM_FORMATS = [None, "float", "double"]
STR_FORMATS = ["date", "date-time", "uuid"]
STR_VALUES = ["", "hi", "a b", "q\"uote\\", "1", "true", "é中", "{x}", "null"]
FMT_VALUES = {"date": ["1970-01-01", "2020-02-29"], "date-time": ["1970-01-01T00:00:00Z", "2020-01-02T03:04:05Z"],
              "uuid": ["00000000-0000-0000-0000-000000000000", "123e4567-e89b-12d3-a456-426614174000"]}
DECS = [1.5, -0.25, 0.1, 100.125, 0.5, -2.75, 3.25, 0.001]          # non-integral, <= 6 significant digits, no exponent form
DEC_STRS = ["1.5", "-0.25", "1.50", "+2.5", ".5", "10", "-3", "007", "5."]
ENUM = ["x", "y", "zed"]
OBJ_KEYS = ["k", "l"]
PRIMS = ["String", "&'static str", "i8", "i16", "i32", "i64", "i128", "isize", "u8", "u16", "u32", "u64", "u128", "usize", "f32", "f64", "bool",
         "Color", "chrono::NaiveDate", "serde_json::Value", "Vec<u8>"]
LIT_VALUES = [None, True, False, 0, 1, -1, 5, 127, 128, -128, -129, 255, 256, 32767, 32768, 65535, 65536, 2**31 - 1, 2**31, -2**31, -2**31 - 1, 2**32 - 1, 2**32,
              2**63 - 1, 2**63, -2**63, 2**64 - 1, 1.5, -0.25, 0.1, 100.125, 10.0, -3.0, 0.0, 255.0, 256.0, -129.0, 4294967296.0,
              "", "hi", "a\"b", "0", "42", "-7", "+5", "-", "+", "--1", "1 ", " 1", "1_0", "0x10", "９", "300", "-129", "65536", "4294967296", "9223372036854775807", "9223372036854775808",
              "-9223372036854775808", "-9223372036854775809", "18446744073709551615", "18446744073709551616", "1.5", "-0.25", "1.50", ".5", "5.", ".", "1.2.3", "abc",
              "true", "false", "TRUE", "True", "yes", "YES", "1", "no", "on", "inf", "-inf", "NaN", "infinity", "+Infinity", "nan",
              [], ["a"], [1, 2], [None], {}, {"k": "v"}]


def float_ok(v):
    """inputs on which the model's exact-decimal abstraction of f32/f64 is faithful: at most 15 significant
    digits, no negative zero, no exponent / inf / nan spelling"""
    if isinstance(v, bool) or v is None or isinstance(v, (list, dict, float)):
        return True
    if isinstance(v, int):
        return abs(v) < 10**15
    if sum(ch.isdigit() for ch in v) > 15 or re.fullmatch(r"-[0.]*", v) and any(ch == "0" for ch in v):
        return False
    # (`inf`, `NaN`, `infinity` as STRINGS are in: Rust's f64 parser accepts them, they have no literal — finding F17-9, repaired)
    if re.fullmatch(r"[+-]?(inf|infinity|nan)", v, re.I):
        return True
    return not re.search(r"[eE]|inf|nan", v, re.I)


def int_values(fmt, r, n_random):
    lo, hi = INT_RANGE[fmt]
    vals = {0, 1, lo, hi, min(hi, 42), max(lo, -7) if lo < 0 else 7}
    for _ in range(n_random):
        vals.add(r.randint(lo, hi))
        vals.add(r.randint(max(lo, -1000), min(hi, 1000)))
    return sorted(vals)


def mk(kind, value, src="default", **kw):
    m = {"kind": kind, src: value}
    for k, v in kw.items():
        if v:
            m[k] = v
    return {"op": "dflt.member", "in": m}


def prepare_doc(case):
    """dflt.doc: primary data = the document description `doc`; the OpenAPI text, the site list (paths to follow in
    the emitted code, kind, usage, sharing key = the site's own object schema, members) are derived."""
    d = case["in"]["doc"]
    usage = {c["name"]: c["usage"] for c in d.get("comps", [])}
    sites = []
    for s in dflt_doc_sites(d):
        ms = []
        for f in s["fields"]:
            m = dict(f["m"], builders=bool(d.get("builders")))
            if "scalar" not in m["kind"]:
                if not (s["at"] == ["T"] and f["name"] == "mem"):
                    raise ValueError("generated member types are named for T.mem only")
                m["custom"] = dflt_custom_name(m)
            ms.append({"name": f["name"], "m": m})
        sites.append({"at": s["at"], "members": [f["name"] for f in s["fields"]], "kind": s["kind"], "usage": usage.get(s["comp"], "both"),
                      "key": _dflt_obj_schema(s["fields"], s["deny"], s["ann"]) if s["inline"] else None, "ms": ms})
    i = {"doc": d, "spec": dflt_doc_spec(d), "mode": d["mode"], "sites": sites,
         "cfg": {"builders": bool(d.get("builders")), "all_schemas": any(c["usage"] == "none" for c in d.get("comps", []))}}
    if case.get("_want_code"):
        i["want"] = ["code"]
    return {"op": case["op"], "in": i}


def prepare(case):
    """derived fields (the OpenAPI document, generator config) are rebuilt from the primary data."""
    if case["op"] == "dflt.doc":
        return prepare_doc(case)
    if case["op"] not in ("dflt.member",):
        return case
    m = {k: v for k, v in case["in"].items() if k not in ("spec", "cfg", "mode", "struct", "member", "custom", "want")}
    d = dict(m, spec=dflt_spec(m), cfg={"builders": bool(m.get("builders"))}, mode="types", struct="T", member="mem", custom=dflt_custom_name(m))
    if case.get("_want_code"):
        d["want"] = ["code"]
    return {"op": case["op"], "in": d}


def member_space(ctx, r, n_random):
    """(kind, value, allowed sources) triples: every member type of the grammar x default values of every JSON type."""
    out = []
    sc = lambda ty, fmt=None: {"scalar": ({"ty": ty, "format": fmt} if fmt else {"ty": ty})}
    for v in STR_VALUES:
        out.append((sc("string"), v, ("default", "const", "enum1"), True))
    for fmt in INT_FORMATS:
        for v in int_values(fmt, r, n_random):
            out.append((sc("integer", fmt), v, ("default", "const", "enum1"), True))
            if abs(v) < 10**6:
                out.append((sc("integer", fmt), str(v), ("default",), True))      # string-encoded
        out.append((sc("integer", fmt), "+5", ("default",), True))
        # JSON has one number type: `10.0` is the integer 10 (serde_json keeps it as a float; finding F17-8, repaired)
        for v in (10.0, 0.0, 1.0):
            out.append((sc("integer", fmt), v, ("default",), True))
    for fmt in NUM_FORMATS:
        for v in DECS + [0, 1, -2, 1000]:
            out.append((sc("number", fmt), v, ("default", "const", "enum1"), True))
        for v in DEC_STRS:
            out.append((sc("number", fmt), v, ("default",), True))
    for v in (True, False):
        out.append((sc("boolean"), v, ("default", "const", "enum1"), True))
    for v in ("true", "false"):
        out.append((sc("boolean"), v, ("default",), True))
    for fmt in STR_FORMATS:
        for v in FMT_VALUES[fmt]:
            out.append((sc("string", fmt), v, ("default",), False))
    return out


def cases(ctx):
    r = ctx.rng
    out = []
    # ---- K: extract_default_value --------------------------------------------------------------
    vals = ["d", 0, False, [], {}, None]
    for d, c, e in itertools.product([..., "d", 0, None], [..., "c", False, None], [..., ["e"], ["e", "f"], [], [None], [0]]):
        s = {"type": "string"}
        if d is not ...: s["default"] = d
        if c is not ...: s["const"] = c
        if e is not ...: s["enum"] = e
        out.append({"op": "dflt.extract", "in": {"schema": s}})
    # ---- K: json_to_rust_literal over TypeRef x JSON value ---------------------------------------
    # a NUMBER written into a string- or bool-typed member (a type mismatch in the document) goes by its spelling (`10.0` is a
    # float for serde_json), which the canonical-decimal model does not carry
    spelled = lambda p, v: isinstance(v, float) and v == int(v) and p in ("String", "&'static str", "bool")
    lit = [(p, v, n, a) for p in PRIMS for v in LIT_VALUES for n in (False, True) for a in (False, True) if (p not in ("f32", "f64") or float_ok(v)) and not spelled(p, v)]
    if ctx.quick:
        lit = [x for x in lit if not x[3]] + r.sample([x for x in lit if x[3]], 300)
    for p, v, n, a in lit:
        out.append({"op": "dflt.literal", "in": {"value": v, "base": p, "nullable": n, "array": a}})
    for _ in range(600 if ctx.quick else 6000):
        p = r.choice(PRIMS[:17])
        k = r.random()
        if k < 0.35:
            v = r.choice([r.randint(-2**63, 2**64 - 1), r.randint(-70000, 70000), r.randint(-300, 300)])
        elif k < 0.6:
            v = str(r.choice([r.randint(-2**63 - 5, 2**64 + 5), r.randint(-70000, 70000), r.randint(-300, 300)]))
            if r.random() < 0.2: v = "+" + v.lstrip("-")
        elif k < 0.8:
            mant = r.randint(1, 999999)
            while mant % 10 == 0: mant += 1
            sc_ = r.randint(1, 4)
            f = mant / 10 ** sc_
            v = r.choice([f, -f, "%.*f" % (sc_, f), "-%.*f" % (sc_, f)])
        else:
            v = "".join(r.choice("ab1 -+.tT0") for _ in range(r.randint(0, 4)))
        if p in ("f32", "f64") and not float_ok(v):
            v = "ab"
        out.append({"op": "dflt.literal", "in": {"value": v, "base": p, "nullable": r.random() < 0.5, "array": r.random() < 0.1}})
    # ---- E: members -------------------------------------------------------------------------------
    mem = []
    space = member_space(ctx, r, 1 if ctx.quick else 10)
    for kind, v, srcs, nullable_ok in space:
        for src in srcs:
            for nullable in ((False, True) if nullable_ok else (False,)):
                for required in (False, True):
                    for builders in (False, True):
                        mem.append(mk(kind, v, src, nullable=nullable, required=required, builders=builders))
                        if r.random() < 0.12:
                            mem.append(mk(kind, v, src, nullable=nullable, required=required, builders=builders, deny=True))
    full = []
    for required in (False, True):
        for builders in (False, True):
            kw = dict(required=required, builders=builders)
            for ref in (False, True, "bare"):
                for v in ENUM:
                    full.append(mk({"enum": ENUM}, v, "default", ref=ref, **kw))
            for v in ({}, {"k": "v"}, {"k": "v", "l": "w"}):
                full.append(mk({"object": OBJ_KEYS}, v, "default", **kw))
            for ity, vs in (("string", ([], ["a"], ["a", "b"], [""])), ("integer", ([], [1], [1, -2])), ("number", ([], [1.5], [1, 2.5])), ("boolean", ([], [True, False]))):
                for v in vs:
                    for src in ("default", "const"):
                        full.append(mk({"scalar": {"ty": ity}}, v, src, array=True, **kw))
            # null defaults: `default: null` is read as "no default" by the oas3 parser; single-value enum [null] is Some(Null)
            for ty in ("string", "integer", "number", "boolean"):
                full.append(mk({"scalar": {"ty": ty}}, None, "default", nullable=True, **kw))
                full.append(mk({"scalar": {"ty": ty}}, None, "enum1", nullable=True, **kw))
    if ctx.quick:
        mem = r.sample(mem, 2500)
    out += full + mem
    # ---- E on documents: target x usage, several sites ------------------------------------------------
    # (bare `$ref` members with sibling keywords are judged by dflt.member only: F17-7)
    out += usage_cases(ctx, r, [c for c in full + mem if c["in"].get("ref") != "bare"], 900 if ctx.quick else 12000)
    out += site_cases(ctx, r, 500 if ctx.quick else 6000)
    return out


# ------------------------------------------------------------------------------------------------
# E on documents: usage / target dimension and site dimension (dflt.doc)
MODES = ["types", "client-mod", "server-mod"]
USAGES = ["req", "resp", "both", "param", "none"]
ZF = {"name": "z", "k": "m", "m": {"kind": {"scalar": {"ty": "string"}}}}


def usage_doc(m, mode, usage, builders, loc="query"):
    """the member case `m` (grammar of dflt.member) as member `mem` of component T used as `usage` says, or — for
    `param` — as a parameter of operation pq; generated for `mode`"""
    m = {k: v for k, v in m.items() if k not in ("builders", "deny")}
    if usage == "param":
        return {"mode": mode, "builders": builders, "comps": [], "params": [{"name": "mem", "loc": loc, "m": m}, {"name": "z", "loc": loc, "m": dict(ZF["m"])}]}
    return {"mode": mode, "builders": builders, "comps": [{"name": "T", "usage": usage, "fields": [{"name": "mem", "k": "m", "m": m}, dict(ZF)]}]}


CORE_MEMBERS = [
    mk({"scalar": {"ty": "integer"}}, 5), mk({"scalar": {"ty": "integer", "format": "int32"}}, -7, required=True),
    mk({"scalar": {"ty": "string"}}, "c", "const", required=True), mk({"scalar": {"ty": "string"}}, "e", "enum1", required=True),
    mk({"scalar": {"ty": "string"}}, "", "default"), mk({"scalar": {"ty": "string"}}, "k", "const"),
    mk({"scalar": {"ty": "boolean"}}, True, nullable=True), mk({"scalar": {"ty": "boolean"}}, "true"),
    mk({"scalar": {"ty": "number"}}, 1.5), mk({"scalar": {"ty": "number", "format": "float"}}, "0.25", required=True),
    mk({"scalar": {"ty": "integer", "format": "uint8"}}, 255, "enum1"), mk({"scalar": {"ty": "string"}}, [], array=True),
    mk({"scalar": {"ty": "integer"}}, None, "enum1", nullable=True),
]


def usage_cases(ctx, r, member_cases, n_random):
    """(a): every (target x usage) with a fixed core of member shapes, plus a sample of the whole member space"""
    out = []
    scalar_only = lambda c: "scalar" in c["in"]["kind"]
    for mode in MODES:
        for usage in USAGES:
            for c in CORE_MEMBERS:
                for b in (False, True):
                    for loc in (("query", "header") if usage == "param" else ("query",)):
                        out.append({"op": "dflt.doc", "in": {"doc": usage_doc(c["in"], mode, usage, b, loc)}})
    pool_any = [c for c in member_cases]
    pool_sc = [c for c in member_cases if scalar_only(c)]
    for _ in range(n_random):
        usage = r.choice(USAGES)
        c = r.choice(pool_sc if usage == "param" else pool_any)
        out.append({"op": "dflt.doc", "in": {"doc": usage_doc(c["in"], r.choice(MODES), usage, bool(c["in"].get("builders")), r.choice(["query", "query", "header"]))}})
    return out


SITE_POOL = {
    ("integer", None): [0, 1, 5, -7, 42, 100], ("integer", "int32"): [0, 3, -2, 2147483647], ("integer", "uint8"): [0, 9, 255],
    ("string", None): ["", "hi", "a b", "x", "1"], ("boolean", None): [True, False], ("number", None): [1.5, -0.25, 0.5, 2.75],
    ("number", "float"): [0.5, 1.25, -2.75],
}
SITE_NAMES = ["backoff", "jitter", "max", "mode", "n_tries", "on"]
ANNOTATIONS = [("description", ["first", "second", "third"]), ("title", ["One", "Two", "Three"]), ("example", [{"max": 1}, {"max": 2}, {"max": 3}])]
MEMBER_ANNOTATIONS = [("description", ["a", "b", "c"]), ("example", ["e1", "e2", "e3"]), ("deprecated", [False, True, False])]


def site_shape(r):
    """an inline object shape: 1-3 defaulted scalar members (+ a sibling without default)"""
    names = sorted(r.sample(SITE_NAMES, r.randint(1, 3)))
    mems = []
    for n in names:
        ty, fmt = r.choice(list(SITE_POOL))
        src = r.choice(["default", "default", "const", "enum1"])
        mems.append({"name": n, "ty": ty, "fmt": fmt, "src": src, "required": r.random() < 0.4, "nullable": src == "default" and r.random() < 0.15})
    return mems


def site_fields(shape, values, mann=None):
    fs = []
    for s, v in zip(shape, values):
        kind = {"scalar": {"ty": s["ty"], "format": s["fmt"]} if s["fmt"] else {"ty": s["ty"]}}
        m = {"kind": kind, s["src"]: v}
        if s["required"]: m["required"] = True
        if s["nullable"]: m["nullable"] = True
        f = {"name": s["name"], "k": "m", "m": m}
        if mann and s["name"] in mann:
            f["mann"] = mann[s["name"]]
        fs.append(f)
    return fs + [dict(ZF)]


PLACEMENTS = {
    # (component, property, wrap) per site
    "siblings": [("A", "p", "plain"), ("A", "q", "plain"), ("A", "r", "plain")],
    "holders": [("A", "p", "plain"), ("B", "p", "plain"), ("C", "p", "plain")],
    "items": [("A", "p", "array"), ("A", "q", "array"), ("A", "r", "plain")],
    "mixed": [("A", "p", "plain"), ("B", "q", "array"), ("B", "r", "plain")],
    "reqresp": [("A", "p", "plain"), ("B", "p", "plain"), ("B", "q", "array")],
}


def site_doc(r, what):
    """(b): 2-3 inline objects of ONE shape whose members differ only in default values (`what` = defaults), only in
    annotations (`what` = ann: nothing about defaults may change), or both (sites 0/1 defaults, 1/2 annotations);
    `what` = same: identical schemas (one shared type)."""
    shape = site_shape(r)
    n = r.choice([2, 2, 3])
    base = [r.choice(SITE_POOL[(s["ty"], s["fmt"])]) for s in shape]
    def other(vals):
        k = r.randrange(len(shape)) if r.random() < 0.6 else None      # one member or all members differ
        out = []
        for i, (s, v) in enumerate(zip(shape, vals)):
            cands = [x for x in SITE_POOL[(s["ty"], s["fmt"])] if x != v]
            out.append(r.choice(cands) if (k is None or k == i) and cands else v)
        return out
    variants = []       # (values, object annotation, member annotations)
    akey, avals = r.choice(ANNOTATIONS)
    mkey, mvals = r.choice(MEMBER_ANNOTATIONS)
    mname = r.choice(shape)["name"]
    def ann(i):
        return ({akey: avals[i]}, None) if r.random() < 0.5 else (None, {mname: {mkey: mvals[i]}})
    if what == "defaults":
        vals = [base]
        while len(vals) < n:
            v = other(r.choice(vals))
            if v not in vals: vals.append(v)
            elif all(len(SITE_POOL[(s["ty"], s["fmt"])]) <= n for s in shape): break
        variants = [(v, None, None) for v in vals]
    elif what == "ann":
        style = r.random() < 0.5
        variants = [(base, {akey: avals[i]}, None) if style else (base, None, {mname: {mkey: mvals[i]}}) for i in range(n)]
    elif what == "same":
        variants = [(base, None, None)] * n
    else:
        b2 = other(base)
        a1 = ann(1); a2 = ann(2)
        variants = [(base, None, None), (b2,) + a1, (b2,) + a2][:max(n, 2)]
    order = list(range(len(variants)))
    r.shuffle(order)                     # which variant sits at which place: both generation orders over the seeds …
    places = PLACEMENTS[r.choice(list(PLACEMENTS))][:len(variants)]
    comps = {}
    for (cn, prop, wrap), vi in zip(places, order):
        v, oa, ma = variants[vi]
        f = {"name": prop, "k": "obj", "wrap": wrap, "required": r.random() < 0.3, "fields": site_fields(shape, v, ma)}
        if oa: f["ann"] = oa
        comps.setdefault(cn, []).append(f)
    usage_pool = ["req", "resp", "both", "both"] + (["none"] if r.random() < 0.1 else [])
    return {"mode": r.choice(MODES), "builders": r.random() < 0.3,
            "comps": [{"name": cn, "usage": r.choice(usage_pool), "fields": fs} for cn, fs in sorted(comps.items())]}


def swapped(d):
    """… and explicitly: the same document with the inline objects of the first two places exchanged"""
    import copy
    d = copy.deepcopy(d)
    objs = [(c, i) for c in d["comps"] for i, f in enumerate(c["fields"]) if f["k"] == "obj"]
    if len(objs) < 2:
        return None
    (c0, i0), (c1, i1) = objs[0], objs[1]
    f0, f1 = c0["fields"][i0], c1["fields"][i1]
    for k in ("fields", "ann"):
        a, b = f0.get(k), f1.get(k)
        for f, v in ((f0, b), (f1, a)):
            if v is None: f.pop(k, None)
            else: f[k] = v
    return d


def site_cases(ctx, r, n):
    out = []
    for i in range(n):
        what = ["defaults", "defaults", "ann", "both", "same"][i % 5]
        d = site_doc(r, what)
        out.append({"op": "dflt.doc", "in": {"doc": d}})
        s = swapped(d)
        if s is not None and what != "same":
            out.append({"op": "dflt.doc", "in": {"doc": s}})
    return out


# ------------------------------------------------------------------------------------------------
# tie A: compile + run the emitted types
ARENA_MAIN_HEAD = "#![allow(warnings)]\n"


def strip_header(code):
    return "\n".join(l for l in code.splitlines() if not l.startswith("#![") and not l.startswith("//!"))


def arena_run(ctx, mcases):
    """mcases: dflt.member cases.  Returns list of (case, triple) for op dflt.run (impl = observed run-time values)."""
    sent = [prepare(dict(c, _want_code=True)) for c in mcases]
    triples = ctx.run_impl(sent)
    adir = os.path.join(vlib.CACHE, "arena-c17")
    src = os.path.join(adir, "src")
    shutil.rmtree(src, ignore_errors=True)
    os.makedirs(src, exist_ok=True)
    shutil.copyfile(os.path.join(vlib.VERIF, "arena", "c17", "Cargo.toml"), os.path.join(adir, "Cargo.toml"))
    shutil.copyfile(os.path.join(vlib.REPO, "Cargo.lock"), os.path.join(adir, "Cargo.lock"))
    mods, calls, kept = [], [], []
    for i, (c, t) in enumerate(zip(mcases, triples)):
        code = (t.get("impl") or {}).get("code")
        if not code:
            continue
        b = bool(c["in"].get("builders"))
        probe = '''
pub fn probe() -> String {
    let dec = match serde_json::from_str::<T>(r#"{"z":"q"}"#) {
        Ok(v) => serde_json::to_string(&v).unwrap(),
        Err(e) => format!("{{\\"$err\\":{}}}", serde_json::to_string(&e.to_string()).unwrap()),
    };
    let dflt = serde_json::to_string(&T::default()).unwrap();
    let bld = %s;
    format!("{{\\"dec\\":{dec},\\"dflt\\":{dflt},\\"bld\\":{bld}}}")
}
''' % ('serde_json::to_string(&T::builder().build()).unwrap()' if b else '"null".to_string()')
        open(os.path.join(src, f"c{i}.rs"), "w").write(strip_header(code) + probe)
        mods.append(f"mod c{i};")
        calls.append(f'    println!("{{{{\\"id\\":{i},\\"r\\":{{}}}}}}", c{i}::probe());')
        kept.append(i)
    open(os.path.join(src, "main.rs"), "w").write(ARENA_MAIN_HEAD + "\n".join(mods) + "\nfn main() {\n" + "\n".join(calls) + "\n}\n")
    env = dict(vlib.ENV, CARGO_TARGET_DIR=os.path.join(vlib.CACHE, "arena-target"))
    with vlib.lock("cargo-arena"):
        rc, out, err = vlib.sh(["cargo", "build", "--offline"], cwd=adir, timeout=3000, env=env)
        if rc != 0:
            ctx.breaks.append(vlib.Break("harness", "arena-build:c17", err[-6000:]))
            return []
        rc, out, err = vlib.sh([os.path.join(vlib.CACHE, "arena-target", "debug", "arena-c17")], cwd=adir, timeout=600)
    res = {}
    for l in out.splitlines():
        try:
            o = json.loads(l)
            res[o["id"]] = o["r"]
        except Exception:
            pass
    outp = []
    for i in kept:
        c = mcases[i]
        r_ = res.get(i)
        if r_ is None:
            ctx.breaks.append(vlib.Break("harness", "arena-run:c17", f"no output for case {i}: rc={rc} {err[-500:]}"))
            continue
        b = bool(c["in"].get("builders"))
        dec = r_["dec"]
        obs = {
            "dec": "$ERR" if "$err" in dec else dec.get("mem"),
            "enc": "$ABSENT" if ("$err" in dec or "mem" not in dec) else dec["mem"],
            "dflt": r_["dflt"].get("mem"),
            "bld": (r_["bld"].get("mem") if b else "$OFF"),
        }
        case = {"op": "dflt.run", "in": c["in"]}
        outp.append((case, {"op": "dflt.run", "in": prepare({"op": "dflt.member", "in": c["in"]})["in"], "impl": obs}))
    return outp


def run(ctx):
    proofs_ok, driver_ok = ctx.build_lean(["Oas3Model.Props.C17"])
    if proofs_ok:
        ctx.audit("Oas3Model.Props.C17")
        if not ctx.quick:
            ctx.leanchecker("Oas3Model.Props.C17")
    ctx.prepare = prepare
    if driver_ok and ctx.build_harness(["k_dflt"]):
        corpus = [c for c in vlib_corpus(ctx)]
        allc = corpus + cases(ctx)
        B = 800
        for i in range(0, len(allc), B):
            ctx.classify(ctx.evaluate(allc[i:i + B], tie="K+E"), tie="K+E")
            if len(ctx.violations) >= 3:
                break
        if not ctx.quick and not ctx.violations:
            mem = [c for c in allc if c["op"] == "dflt.member"]
            seen, uniq = set(), []
            for c in mem:
                k = json.dumps(c["in"], sort_keys=True)
                if k not in seen:
                    seen.add(k); uniq.append(c)
            pick = [c for c in corpus if c["op"] == "dflt.member"]
            rest = [c for c in uniq if c not in pick]
            pick += ctx.rng.sample(rest, min(700, len(rest)))
            pairs = arena_run(ctx, pick)
            if pairs:
                answers = ctx.run_model([t for _, t in pairs])
                ctx.ties["A"] = len(pairs)
                ctx.classify([(c, t, a) for (c, t), a in zip(pairs, answers)], shrink=False, tie="A")
    return ctx.finish(
        checker_cmd="lake build Oas3Model.Props.C17 && #print axioms on every theorem" + ("" if ctx.quick else " && leanchecker Oas3Model.Props.C17"),
        trusted_base=vlib.TRUSTED_BASE + [
            "Sem/Defaults.lean: meaning of #[default(e)] (better_default), struct-level #[serde(default)], #[builder(default = e)] (bon), skip_serializing_none, rustc typing + overflowing_literals of the 9 emitted expression shapes, Default of std/chrono/uuid types (validated on compiled code by tie A in the thorough tier)",
            "floating point values are identified with the decimals they were written as (generated decimals have <= 6 significant digits)",
            "syn-based reading of the emitted attributes (harness/src/k_dflt.rs)",
            "type naming of generated enum/struct member types is an input of the model (C09's subject)"],
        rule="K: every (TypeRef base x JSON value x nullable x array) of a 21 x 95 table through the real json_to_rust_literal (+ random ints/decimals/strings), extract_default_value on all default/const/enum combinations; "
             "E: bounded-exhaustive member grammar {string, integer x 9 formats, number x 3 formats, boolean, string formats date/date-time/uuid, enum inline/$ref, inline object, arrays of 4 item types, nullable} x "
             "{default values of the matching JSON type incl. range ends, string-encoded ints/decimals/bools, null} x {default, const, single enum} x {required, optional} x {builders on, off} (all in thorough, sample in quick) through the real generator in-process; "
             "E on documents (dflt.doc): 13 core member shapes x {types, client-mod, server-mod} x {req, resp, both, param(query, header), none} x builders + a sample of the member space under random target/usage; 2-3 same-shaped inline objects differing only in default values / only in annotations / both / not at all, at sibling properties, different holders, array items, request vs response holders, in both orders, judged per site; "
             "A (thorough): 700+ of those compiled and executed; non-trivial = any branch; distinct by input hash",
        assumptions=["the member is named `mem` in struct `T` with one optional sibling (field naming/renames are C09/C02)", "default enum mode, no discriminator, no OData"])
