"""C13 — type sharing is sound: only wire-equivalent schemas share a Rust type."""
import copy, itertools, json
import vlib
from checks.c09 import vlib_corpus
from specgen import share_spec, multi_resp_spec, share_spec_pool, SHARE_POOLS

R = lambda n: {"$ref": "#/components/schemas/" + n}
DISC = {"propertyName": "kind"}
DISCM = {"propertyName": "kind", "mapping": {"a": "#/components/schemas/A", "b": "#/components/schemas/B"}}

# near-equal families: element 0 is the base, every other element differs from it in ONE facet
ENUMS = [
    {"type": "string", "enum": ["a", "b", "c"]},
    {"type": "string", "enum": ["c", "b", "a"]},                                # value order
    {"type": "string", "enum": ["a", "b", "c"], "description": "colour"},       # description only
    {"enum": ["a", "b", "c"]},                                                  # no type keyword
    {"type": "string", "enum": ["a", "b", "d"]},                                # value set
    {"type": "string", "enum": ["a", "b"]},                                     # value set (subset)
    {"enum": ["a", "b", "c", 1]},                                               # extra non-string value
    {"enum": ["a", "b", "c", 2]},
    {"enum": ["a", "b", "c", True]},
    {"type": ["string", "null"], "enum": ["a", "b", "c", None]},                # nullable
    {"type": "integer", "enum": [1, 2, 3]},                                     # value JSON type
    {"type": "integer", "enum": [4, 5, 6]},
    {"type": "string", "enum": ["1", "2", "3"]},
    {"type": "integer", "enum": [3, 2, 1], "description": "level"},
    {"enum": [True, False]},
]
OBJS = [
    {"type": "object", "required": ["x"], "properties": {"x": {"type": "string"}, "y": {"type": "integer"}}},
    {"type": "object", "required": ["x"], "properties": {"y": {"type": "integer"}, "x": {"type": "string"}}},   # key order
    {"properties": {"x": {"type": "string"}, "y": {"type": "integer"}}, "required": ["x"], "type": "object"},   # key order
    {"type": "object", "required": ["x"], "properties": {"x": {"type": "string"}, "y": {"type": "integer"}}, "description": "thing"},
    {"type": "object", "required": ["x"], "properties": {"x": {"type": "string"}, "y": {"type": "string"}}},    # member type
    {"type": "object", "required": ["x", "y"], "properties": {"x": {"type": "string"}, "y": {"type": "integer"}}},  # required set
    {"type": "object", "required": ["y", "x"], "properties": {"x": {"type": "string"}, "y": {"type": "integer"}}},
    {"type": "object", "properties": {"x": {"type": "string"}, "y": {"type": "integer"}}},
    {"type": "object", "required": ["x"], "properties": {"x": {"type": "string"}, "y": {"type": "integer"}, "z": R("A")}},
    {"type": "object", "required": ["x"], "properties": {"x": {"type": "string"}, "y": R("A")}},
    {"required": ["x"], "properties": {"x": {"type": "string"}, "y": {"type": "integer"}}},                      # no type keyword
    {"type": "object", "required": ["x"], "properties": {"x": {"type": "string", "description": "d"}, "y": {"type": "integer"}}},
]
UNIONS = [
    {"oneOf": [R("A"), R("B")]},
    {"anyOf": [R("A"), R("B")]},                                   # oneOf / anyOf
    {"oneOf": [R("B"), R("A")]},                                   # member order
    {"oneOf": [R("A"), R("B")], "description": "either"},          # description only
    {"oneOf": [R("A"), R("B"), {"type": "string"}]},               # extra inline member
    {"oneOf": [R("A"), R("B"), {"type": "integer"}]},
    {"oneOf": [R("A"), R("C")]},                                   # member type
    {"oneOf": [R("A"), R("B"), R("C")]},
    {"oneOf": [R("A"), R("B")], "discriminator": DISC},            # discriminator (no mapping)
    {"oneOf": [R("A"), R("B")], "discriminator": DISCM},           # discriminator with mapping
    {"anyOf": [R("A"), R("B")], "discriminator": DISCM},
    {"oneOf": [R("A"), {"type": "string"}]},                       # < 2 refs: canonical-form identity only
    {"oneOf": [R("A"), {"type": "string"}], "description": "either"},
    {"oneOf": [R("A"), {"type": "integer"}]},
]
FAMILIES = {"enum": ENUMS, "object": OBJS, "union": UNIONS}

NAMED = ["Na", "Nb", "Nc"]
SITES = [{"kind": "named", "name": n} for n in NAMED] + \
        [{"kind": k, "holder": h, "prop": p} for h in ("H1", "H2") for k, p in (("prop", "p"), ("prop", "q"), ("items", "r"), ("items", "s"))]
# site combinations for a pair (first, second): every kind x kind, same / different holder, both orders of named names
PAIR_SITES = [
    ("Na", "Nb"), ("Nb", "Na"), ("Na", "H1.p"), ("Nc", "H1.p"), ("Na", "H1.r"), ("H1.p", "H1.q"), ("H1.q", "H1.p"), ("H1.p", "H2.p"),
    ("H2.q", "H1.p"), ("H1.p", "H1.r"), ("H1.r", "H2.p"), ("H1.r", "H1.s"), ("H1.r", "H2.s"),
    # an array member whose singular is the name of a sibling member: the item type and the sibling's type want one name
    ("H1.entries", "H1.entry"), ("H1.entry", "H1.entries"), ("H1.entries", "H2.entry"),
]
ITEM_PROPS = ("r", "s", "entries")
SINGULAR = {"r": "r", "s": "s", "entries": "entry"}


def site_of(tag):
    if "." not in tag:
        return {"kind": "named", "name": tag}
    h, p = tag.split(".")
    if p in ITEM_PROPS:
        return {"kind": "items", "holder": h, "prop": p, "single": SINGULAR[p]}   # item type name = holder + Pascal(cruet::to_singular(member))
    return {"kind": "prop", "holder": h, "prop": p}


def disc_mix(schemas):
    """a mapped discriminator is spec-global (build_discriminator_cache rewrites the tag field of its members and
    gives every other union with an un-mapped discriminator over them an implicit mapping): that cross-schema
    effect is not type sharing (it belongs to C14), so specs mixing the two forms are outside this check's grammar."""
    ds = [s.get("discriminator") for s in schemas if isinstance(s, dict) and s.get("discriminator")]
    return any("mapping" in d for d in ds) and any("mapping" not in d for d in ds)


def mk_share(schemas, tags, extra=None):
    return {"op": "share.sites", "in": {"occs": [{"site": site_of(t), "schema": s} for s, t in zip(schemas, tags)], "extra": extra}}


def prepare(case):
    if case["op"] == "share.sites":
        i = case["in"]
        occs, extra = i["occs"], i.get("extra")
        for o in occs + ([{"site": {"kind": "named", "name": extra.get("name")}, "schema": extra.get("schema")}] if extra else []):
            st, sc = o["site"], o["schema"]
            if st.get("kind") not in ("named", "prop", "items") or not all(st.get(k) for k in (("name",) if st["kind"] == "named" else ("holder", "prop"))):
                raise ValueError("ill-formed site")
            # (a type-less schema that carries only a `title`: what pydantic writes for an `Any` field)
            if not (isinstance(sc, dict) and (len(sc.get("enum") or []) >= 2 or sc.get("properties") or len(sc.get("oneOf") or sc.get("anyOf") or []) >= 2 or (set(sc) <= {"title", "description"} and sc.get("title")))):
                raise ValueError("schema outside the feature grammar")
        pool = i.get("pool") or "abc"
        if pool not in SHARE_POOLS:
            raise ValueError("unknown pool")
        mk = (lambda os, x=None: share_spec(os, x)) if pool == "abc" else (lambda os, x=None: share_spec_pool(os, x, pool))
        specs = {"combined": mk(occs), "plus": mk(occs, extra) if extra else None, "alone": [mk([o]) for o in occs]}
        return {"op": case["op"], "in": {"occs": occs, "extra": extra, "specs": specs, "opaque": [k for k, v in SHARE_POOLS[pool].items() if "properties" in v],
                                          # pool members with a `const` tag that a named discriminated union of the pool lists
                                          "tagged_refs": [k for k, v in SHARE_POOLS[pool].items() if "const" in (v.get("properties") or {}).get("kind", {})], "mode": "client-mod", "cfg": {"all_schemas": True}}}
    if case["op"] == "share.resp":
        ops = case["in"]["ops"]
        if not ops or not all(o.get("opid") and o.get("path", "").startswith("/") and o.get("responses") for o in ops):
            raise ValueError("ill-formed operation")
        specs = {"combined": multi_resp_spec(ops), "alone": [multi_resp_spec([o]) for o in ops]}
        return {"op": case["op"], "in": {"ops": ops, "opreqs": [o["opid"].capitalize() + "Request" for o in ops], "specs": specs}}
    return case


def title_cases(ctx):
    """type-less schemas that carry only a `title` (pydantic's `Any` fields) next to components of that name / of another name,
    as member and as array items, and as the `extra` unrelated schema added to a document"""
    obj = {"type": "object", "required": ["id"], "properties": {"id": {"type": "integer"}}}
    en = {"type": "string", "enum": ["a", "b"]}
    out = []
    for comp in (obj, en):
        for title in ("Na", "na", "Other", "N a"):
            for tag in ("H1.p", "H1.r", "H2.q"):
                out.append(mk_share([comp, {"title": title}], ["Na", tag]))
                out.append({"op": "share.sites", "in": {"occs": [{"site": site_of(tag), "schema": {"title": title}}, {"site": site_of("H2.p"), "schema": en}], "extra": {"name": "Na", "schema": comp, "value": None}}})
    return out


# ---------------- generators ----------------
def share_cases(ctx):
    r = ctx.rng
    out = []
    pairs = []
    for fam in FAMILIES.values():
        for a, b in itertools.combinations_with_replacement(range(len(fam)), 2):
            for ta, tb in PAIR_SITES:
                pairs.append(mk_share([fam[a], fam[b]], [ta, tb]))
                if a != b:
                    pairs.append(mk_share([fam[b], fam[a]], [ta, tb]))
    pairs = [c for c in pairs if not disc_mix([o["schema"] for o in c["in"]["occs"]])]
    out += r.sample(pairs, 500) if ctx.quick else pairs
    # "adding an unrelated schema": one occurrence at every site kind + an unreferenced named schema of the same family
    extras = []
    for fam in FAMILIES.values():
        for a in range(len(fam)):
            for b in range(len(fam)):
                for tag in ("Na", "H1.p", "H1.r"):
                    for xn in ("Aa", "Zz"):
                        extras.append(mk_share([fam[a]], [tag], {"name": xn, "schema": fam[b]}))
    extras = [c for c in extras if not disc_mix([o["schema"] for o in c["in"]["occs"]] + [c["in"]["extra"]["schema"]])]
    out += r.sample(extras, 300) if ctx.quick else extras
    # triples (and a few cross-family mixes) at random site combinations, some with an extra schema
    tags = ["Na", "Nb", "Nc", "H1.p", "H1.q", "H1.r", "H1.s", "H2.p", "H2.q", "H2.r", "H2.s", "H1.entries", "H1.entry", "H2.entry"]
    for _ in range(250 if ctx.quick else 3000):
        fam = FAMILIES[r.choice(list(FAMILIES))]
        k = r.choice([3, 3, 3, 4])
        base = r.randrange(len(fam))
        idx = [base] + [r.choice([base, r.randrange(len(fam))]) for _ in range(k - 1)]
        schemas = [fam[i] for i in idx]
        if r.random() < 0.15:
            other = FAMILIES[r.choice(list(FAMILIES))]
            schemas[-1] = r.choice(other)
        extra = None
        if r.random() < 0.3:
            extra = {"name": r.choice(["Aa", "Zz", "Mm"]), "schema": r.choice(fam)}
        if not disc_mix(schemas + ([extra["schema"]] if extra else [])):
            out.append(mk_share(schemas, r.sample(tags, k), extra))
    return out


# ---- the SAME member name on several holders (the pre-scan derives ONE best name per value set / inline schema from
# all the places it occurs at: the longest common suffix or prefix of `Holder` + `member`) ----
HOLDER_SETS = [
    ["Order", "Shipment", "Invoice", "Payment"],                                  # nothing in common: the member name alone
    ["UserOrder", "AdminOrder", "UserInvoice", "AdminInvoice"],                  # common suffixes / prefixes among the holders
    ["OrderCreated", "OrderUpdated", "InvoiceCreated", "InvoiceUpdated"],
    ["H1", "H2", "H3", "H4"],
    ["Foo", "FooBar", "FooBarBaz", "Bar"],                                       # holder + member concatenations that coincide
]
MEMBER_NAMES = ["status", "state", "kind", "order_status", "bar_baz", "baz", "type"]
VALUE_SETS = [["placed", "shipped"], ["open", "paid"], ["draft", "final", "void"], ["placed", "shipped", "lost"]]
INLINE_OBJS = [
    {"type": "object", "properties": {"code": {"type": "string"}}},
    {"type": "object", "properties": {"code": {"type": "integer"}}},
    {"type": "object", "required": ["code"], "properties": {"code": {"type": "string"}, "at": {"type": "string"}}},
]


def same_member_cases(ctx):
    """2-4 holders carry a member of the same (or a concatenation-equivalent) name; the members' inline schemas are
    partitioned into 1-3 different value sets (enums) or shapes (objects).  Judge as everywhere: each site's wire
    shape equals its stand-alone one; model: sites share a type iff their schemas have one identity token."""
    r = ctx.rng
    out = []

    def one(holders, members, groups, fam, extra=None, kind="prop"):
        occs = []
        for h, m, g in zip(holders, members, groups):
            sch = {"type": "string", "enum": list(VALUE_SETS[g])} if fam == "enum" else copy.deepcopy(INLINE_OBJS[g % len(INLINE_OBJS)])
            occs.append({"site": {"kind": kind, "holder": h, "prop": m} if kind == "prop" else {"kind": "items", "holder": h, "prop": m, "single": m}, "schema": sch})
        return {"op": "share.sites", "in": {"occs": occs, "extra": extra}}

    # the systematic core: `status` on Order/Shipment vs Invoice/Payment, every partition of 2..4 holders into value sets
    parts = {2: [[0, 0], [0, 1]], 3: [[0, 0, 0], [0, 0, 1], [0, 1, 0], [0, 1, 1], [0, 1, 2]],
             4: [[0, 0, 1, 1], [0, 1, 0, 1], [0, 1, 1, 0], [0, 0, 0, 1], [0, 1, 1, 1], [0, 0, 1, 2], [0, 1, 2, 0], [0, 0, 0, 0]]}
    core = []
    for hs in HOLDER_SETS:
        for n, ps in parts.items():
            for g in ps:
                for fam in ("enum", "object"):
                    for m in ("status", "kind"):
                        core.append(one(hs[:n], [m] * n, g, fam))
                        core.append(one(list(reversed(hs[:n])), [m] * n, g, fam))
    out += r.sample(core, 60) if ctx.quick else core
    # the document grows: the first two holders alone, then the others as "unrelated" additions is covered by the
    # stand-alone comparison; an unrelated NAMED schema that wants the same name is added explicitly
    for _ in range(60 if ctx.quick else 1500):
        hs = r.choice(HOLDER_SETS)
        n = r.randint(2, 4)
        holders = r.sample(hs, n)
        base = r.choice(MEMBER_NAMES)
        members = [base if r.random() < 0.8 else r.choice(MEMBER_NAMES) for _ in range(n)]
        groups = [r.randrange(3) for _ in range(n)]
        if r.random() < 0.3:
            groups[-1] = 3                      # a superset value set
        fam = "enum" if r.random() < 0.7 else "object"
        extra = None
        if r.random() < 0.3:
            nm = r.choice(["Status", "Kind", "State", "OrderStatus", "Zz"])
            extra = {"name": nm, "schema": {"type": "string", "enum": list(r.choice(VALUE_SETS))} if r.random() < 0.7 else copy.deepcopy(r.choice(INLINE_OBJS))}
        out.append(one(holders, members, groups, fam, extra))
    return out


def disc_cases(ctx):
    """unions with a mapping-LESS discriminator (implicit mapping from the members' `const` tags -> tagged enum) next
    to plain unions over the same `$ref`s (untagged enum), in both generation orders (members of a holder are
    generated in name order), same / different holders, members / array items, oneOf / anyOf"""
    r = ctx.rng
    RA = lambda n: {"$ref": "#/components/schemas/" + n}
    out = []
    sites_pairs = [(("Holder", "loose"), ("Holder", "tagged")), (("Keeper", "first"), ("Keeper", "second")), (("Keeper", "second"), ("Keeper", "first")),
                   (("Holder", "a"), ("Keeper", "a")), (("Keeper", "a"), ("Holder", "a")), (("Holder", "list"), ("Holder", "one")), (("Holder", "one"), ("Holder", "list"))]
    allc = []
    for refs in (["Cat", "Dog"], ["Cat", "Bird"], ["Dog", "Bird"], ["Dog", "Cat"]):
        for kw in ("oneOf", "anyOf"):
            plain = {kw: [RA(x) for x in refs]}
            tagged = {kw: [RA(x) for x in refs], "discriminator": {"propertyName": "kind"}}
            for (h1, p1), (h2, p2) in sites_pairs:
                for first, second in ((plain, tagged), (tagged, plain), (tagged, tagged), (plain, plain)):
                    occs = [{"site": {"kind": "items" if p == "list" else "prop", "holder": h, "prop": p, **({"single": "list"} if p == "list" else {})}, "schema": copy.deepcopy(sc)}
                            for (h, p), sc in (((h1, p1), first), ((h2, p2), second))]
                    allc.append({"op": "share.sites", "in": {"occs": occs, "extra": None, "pool": "animals"}})
                    if first is not second:
                        # the document grows by an unrelated named union over the same refs, with / without discriminator
                        allc.append({"op": "share.sites", "in": {"occs": occs[:1], "extra": {"name": r.choice(["Aa", "Zz"]), "schema": copy.deepcopy(second)}, "pool": "animals"}})
    out += r.sample(allc, 40) if ctx.quick else allc
    return out


RESP_BASE = [["200", [["application/json", "ref:Pet"]]], ["404", [["application/json", "ref:Err"]]]]
RESP_VARIANTS = [
    RESP_BASE,
    [["404", [["application/json", "ref:Err"]]], ["200", [["application/json", "ref:Pet"]]]],       # key order
    [["201", [["application/json", "ref:Pet"]]], ["404", [["application/json", "ref:Err"]]]],       # status
    [["2XX", [["application/json", "ref:Pet"]]], ["404", [["application/json", "ref:Err"]]]],
    [["200", [["application/json", "ref:Err"]]], ["404", [["application/json", "ref:Err"]]]],       # payload type
    [["200", [["text/plain", "string"]]], ["404", [["application/json", "ref:Err"]]]],              # media type
    [["200", [["application/json", "ref:Pet"]]], ["404", [["application/problem+json", "ref:Err"]]]],  # same category, other media type
    [["200", [["application/json", "ref:Pet"]]]],
    [["200", [["application/json", "ref:Pet"]]], ["404", [["application/json", "ref:Err"]]], ["default", []]],
    [["200", [["application/json", "ref:Pet"], ["text/plain", "string"]]], ["404", [["application/json", "ref:Err"]]]],
    [["200", [["application/json", "string"]]], ["404", [["application/json", "ref:Err"]]]],
    [["200", []], ["404", [["application/json", "ref:Err"]]]],
    [["200", [["application/json", "integer"]]], ["404", [["application/json", "ref:Err"]]]],
    [["200", [["application/xml", "ref:Pet"]]], ["404", [["application/json", "ref:Err"]]]],
]
OPIDS = [("alpha", "/a"), ("beta", "/b"), ("gamma", "/c")]


def resp_cases(ctx):
    r = ctx.rng
    out = []
    for a, b in itertools.combinations_with_replacement(range(len(RESP_VARIANTS)), 2):
        for order in ((0, 1), (1, 0)):
            ops = []
            for (opid, path), v, d in zip([OPIDS[order[0]], OPIDS[order[1]]], (RESP_VARIANTS[a], RESP_VARIANTS[b]), (None, "other words")):
                ops.append({"opid": opid, "path": path, "responses": v, "desc": d})
            out.append({"op": "share.resp", "in": {"ops": ops}})
    for _ in range(40 if ctx.quick else 400):
        vs = [r.choice(RESP_VARIANTS) for _ in range(3)]
        ops = [{"opid": o, "path": p, "responses": v, "desc": r.choice([None, "x"])} for (o, p), v in zip(r.sample(OPIDS, 3), vs)]
        out.append({"op": "share.resp", "in": {"ops": ops}})
    return r.sample(out, 120) if ctx.quick else out


def shuffled(r, v):
    """same JSON value with object members in another order"""
    if isinstance(v, dict):
        ks = list(v)
        r.shuffle(ks)
        return {k: shuffled(r, v[k]) for k in ks}
    if isinstance(v, list):
        return [shuffled(r, x) for x in v]
    return v


def mutate_schema(r, s):
    s = copy.deepcopy(s)
    k = r.randrange(9)
    if k == 0:
        return shuffled(r, s)
    if k == 1 and "required" in s:
        s["required"] = list(reversed(s["required"]))
    elif k == 2 and "enum" in s:
        s["enum"] = list(reversed(s["enum"]))
    elif k == 3:
        s["description"] = r.choice(["d", "é", "line\nbreak", "quote\"\\", "\u0001ctl", "tab\t", ""])
    elif k == 4:
        s[r.choice(["maximum", "minimum", "maxLength", "default", "example"])] = r.choice([1, 2, -1, 9007199254740991, 9007199254740992, 9007199254740993, -9007199254740992, -9007199254740993, 18446744073709551615])
    elif k == 5:
        s["default"] = r.choice([{"enum": ["q", "p"]}, {"enum": ["p", "q"]}, {"required": ["b", "a"], "type": ["t", "s"]}, {"required": ["a", "b"], "type": ["s", "t"]}, ["b", "a"], ["a", "b"]])
    elif k == 6:
        s["type"] = r.choice([["string", "null"], ["null", "string"], "string", ["integer", "string"]])
    elif k == 7 and "properties" in s:
        p = r.choice(list(s["properties"]))
        s["properties"][p] = mutate_schema(r, s["properties"][p]) if isinstance(s["properties"][p], dict) and "$ref" not in s["properties"][p] else s["properties"][p]
    elif k == 8:
        s["title"] = r.choice(["T", "t"])
    return s


def kernel_cases(ctx):
    r = ctx.rng
    out = []
    allsch = ENUMS + OBJS + UNIONS
    # canonical form: every family as one group (all pairs judged), then random near-equal groups
    for fam in FAMILIES.values():
        out.append({"op": "cache.canon", "in": {"schemas": fam}})
    for _ in range(300 if ctx.quick else 4000):
        base = r.choice(allsch)
        group = [base] + [mutate_schema(r, base if r.random() < 0.7 else r.choice(allsch)) for _ in range(r.randint(1, 4))]
        if r.random() < 0.3:
            group.append(mutate_schema(r, group[-1]))
        out.append({"op": "cache.canon", "in": {"schemas": group}})
    # enum keys
    pool = ["a", "b", "c", "A", "1", "", "é", "a b"]
    other = [1, 2, 0, -1, True, False, None]
    out.append({"op": "cache.enum_key", "in": {"schemas": ENUMS}})
    for _ in range(300 if ctx.quick else 3000):
        group = []
        for _ in range(r.randint(2, 4)):
            vals = r.sample(pool, r.randint(0, 4)) + r.sample(other, r.choice([0, 0, 1, 2]))
            r.shuffle(vals)
            k = r.random()
            if k < 0.6 and vals:
                group.append({"enum": vals})
            elif k < 0.7:
                group.append({"const": r.choice(pool + other[:3])})
            else:
                vs = []
                for v in vals[:3]:
                    vs.append(r.choice([{"const": v}, {"enum": [v, "k"]}, {"type": "string", "enum": [v]} if isinstance(v, str) else {"const": v}]))
                if r.random() < 0.4:
                    vs.append(r.choice([{"type": "string"}, {"type": ["string", "null"]}, {"type": "integer"}, {"type": "string", "const": "q"}]))
                r.shuffle(vs)
                group.append({r.choice(["oneOf", "anyOf"]): vs} if vs else {"type": "string"})
        out.append({"op": "cache.enum_key", "in": {"schemas": group}})
    # union fingerprints
    names = ["A", "B", "C", "D"]
    for _ in range(200 if ctx.quick else 2000):
        schemas = {}
        for n in r.sample(["U", "V", "W", "X1", "u"], r.randint(1, 4)):
            def variants():
                vs = [R(x) for x in r.sample(names, r.randint(0, 3))]
                if r.random() < 0.3:
                    vs.append({"type": "string"})
                if r.random() < 0.15:
                    vs.append({"$ref": "other.yaml#/components/schemas/E"})
                if r.random() < 0.15 and vs:
                    vs.append(vs[0])
                r.shuffle(vs)
                return vs
            s = {}
            if r.random() < 0.8:
                s["oneOf"] = variants()
            if r.random() < 0.4:
                s["anyOf"] = variants()
            s = {k: v for k, v in s.items() if v} or {"type": "string"}
            schemas[n] = s
        out.append({"op": "cache.union_fp", "in": {"schemas": schemas}})
    # SharedSchemaCache scripts
    spool = [ENUMS[0], ENUMS[1], ENUMS[2], ENUMS[10], ENUMS[11], OBJS[0], OBJS[1], OBJS[3], OBJS[4], UNIONS[0], UNIONS[3], {"type": "string"},
             {"anyOf": [{"type": "string"}, {"type": "string", "enum": ["a", "b", "c"]}]}, {"oneOf": [{"type": "string"}, {"enum": ["a", "b", "c"]}]}]
    npool = ["Color", "color", "Pet", "pet_lvl", "PetLvl", "Lvl", "Type", "Vec", "Color2", "x-y", "1st", "HTTPCode"]
    kpool = [["a", "b", "c"], [], ["a", "b"], ["1", "2", "3"]]

    def ekey(s):
        if "enum" in s:
            return sorted(v for v in s["enum"] if isinstance(v, str))
        return None
    for _ in range(300 if ctx.quick else 3000):
        steps = []
        if r.random() < 0.4:
            rows = []
            for s in r.sample(spool, r.randint(0, 4)):
                rows.append([s, r.choice(npool), ekey(s) if r.random() < 0.8 else None])
            steps.append({"op": "pre", "schemas": rows, "enums": [[k, r.choice(npool)] for k in r.sample(kpool, r.randint(0, 3))]})
        for _ in range(r.randint(0, 3)):
            steps.append({"op": "top", "schema": r.choice(spool), "name": r.choice(npool)})
        for _ in range(r.randint(2, 12)):
            k = r.random()
            s = r.choice(spool)
            if k < 0.35:
                key = ekey(s) if r.random() < 0.8 else r.choice(kpool + [None])
                steps.append({"op": "reg", "schema": s, "base": r.choice(npool), "key": key})
            elif k < 0.45:
                steps.append({"op": "get_type_name", "schema": s})
            elif k < 0.55:
                steps.append({"op": r.choice(["get_enum_name", "get_generated_enum_name"]), "values_key": r.choice(kpool)})
            elif k < 0.62:
                steps.append({"op": "preferred", "schema": s, "base": r.choice(npool)})
            elif k < 0.70:
                steps.append({"op": "unique", "base": r.choice(npool)})
            elif k < 0.75:
                steps.append({"op": "mark", "name": r.choice(npool)})
            elif k < 0.80:
                steps.append({"op": "register_enum", "values_key": r.choice(kpool), "name": r.choice(npool)})
            elif k < 0.87:
                steps.append({"op": "get_union", "refs": r.sample(["A", "B", "C"], r.randint(0, 3)), "disc": r.choice([None, "kind", "t"])})
            elif k < 0.92:
                steps.append({"op": "register_union", "refs": r.sample(["A", "B", "C"], r.randint(0, 3)), "disc": r.choice([None, "kind", "t"]), "name": r.choice(npool)})
            elif k < 0.96:
                steps.append({"op": "conflicts", "name": r.choice(npool), "schema": s})
            else:
                steps.append({"op": "precomputed_key", "schema": s})
        out.append({"op": "cache.script", "in": {"steps": steps}})
    return out


def run(ctx):
    ctx.translate(["naming", "status"])
    proofs_ok, driver_ok = ctx.build_lean(["Oas3Model.Props.C13"])
    if proofs_ok:
        ctx.audit("Oas3Model.Props.C13")
        if not ctx.quick:
            ctx.leanchecker("Oas3Model.Props.C13")
    ctx.prepare = prepare
    if driver_ok and ctx.build_harness(["k_cache"]):
        allc = vlib_corpus(ctx) + kernel_cases(ctx) + share_cases(ctx) + resp_cases(ctx) + same_member_cases(ctx) + disc_cases(ctx) + title_cases(ctx)
        B = 400
        for i in range(0, len(allc), B):
            ctx.classify(ctx.evaluate(allc[i:i + B]), tie="K+E")
            if len(ctx.violations) >= 3:
                break
    return ctx.finish(
        checker_cmd="lake build Oas3Model.Props.C13 && #print axioms on every theorem" + ("" if ctx.quick else " && leanchecker"),
        trusted_base=vlib.TRUSTED_BASE + [
            "oas3 crate: ObjectSchema (de)serialisation (the model's canonical form starts from serde_json::to_value(schema))",
            "serialisation of the canonical tree is injective (RFC 8785 text); keys are compared by code point (identical to UTF-16 order below U+D800)",
            "wire behaviour of an emitted type is a function of its name-free expansion (serde attributes, variants, renames, field types, custom Serialize/Deserialize bodies) computed by harness/src/k_cache.rs from syn facts; docs, derives other than serde's, Rust identifiers and validator attributes are not wire behaviour",
            "status/media categorisation of responses reuses the C04 model (Model/Responses.lean)"],
        rule="K: canonical strings of near-equal schema groups (3 families x facets + random mutations: member order, required/enum/type order, descriptions with escapes, integers around +-2^53, nested defaults) compared byte-for-byte with CanonicalSchema::from_schema and every equal pair judged; enum cache keys of enum/const/oneOf/anyOf groups; union fingerprints of random component maps; random SharedSchemaCache API scripts.  E: every ordered pair (incl. identical) of each family (15 enums, 12 objects, 14 unions; each differs from its base in one facet) at 13 use-site combinations (named/property/array-items, same or different holder, both name orders) [all: thorough, 500 sampled: quick]; every (occurrence, unrelated extra schema) pair of a family at 3 site kinds x 2 extra names; random triples/quadruples; the SAME member name (status / kind / concatenations that coincide) on 2-4 holders (4 holder-name families with common prefixes / suffixes) whose inline enums or objects are partitioned into 1-3 different value sets / shapes, every partition, both holder orders, optionally with a named schema that wants the derived name; unions with a mapping-less discriminator next to plain unions over the same refs of a pool with `const` tags, both generation orders, same / other holder, member / array item, oneOf / anyOf, and with the other form added as an unrelated named schema; every pair of 14 near-equal response sets on two operations; each case = one combined generator run + one stand-alone run per occurrence (+ one with the extra schema), in-process from /repo's sources; judged: wire expansion of every use site identical to its stand-alone expansion; model = predicted sharing pattern; non-trivial = some sharing predicted/observed or equal keys; distinct by input hash",
        assumptions=["enum values are strings, integers, booleans or null (no floats)", "schema member names are below U+D800", "component and property names used by the E cases are already valid Rust identifiers"])
