"""C10 — recursive schemas yield finite, usable Rust types."""
import json
import vlib
from checks.c09 import vlib_corpus
from graphgen import *


def prepare(case):
    d = case["in"]
    if d.get("rt"):
        r = d["rt"]
        assert r["kw"] in ("oneOf", "anyOf") and len(r["members"]) >= 2 and all(k in RT_KINDS for _, k in r["members"])
        assert len({n for n, _ in r["members"]} | {r["union"]}) == len(r["members"]) + 1
        spec = rt_spec(d)
        return {"op": case["op"], "in": dict(d, spec=spec, schemas=spec["components"]["schemas"], cfg={"all_schemas": True, "no_helpers": bool(d.get("no_helpers"))},
                                             mode="client-mod", judges=["size", "rt"])}
    names = d["names"]
    edges = [tuple(e) for e in d["edges"]]
    assert names and all(e[0] in names and e[2] in names and e[1] in KINDS + KINDS_EXTRA + KINDS_UNION for e in edges) and not has_allof_cycle(names, edges)
    roots = d.get("roots") or names
    assert all(x in names for x in roots)
    umix = d.get("umix") or {}
    assert all(k in names and v in INLINE_MEMBERS for k, v in umix.items()) and d.get("inline", "string") in INLINE_MEMBERS
    if umix or d.get("inline") or any(e[1] in KINDS_UNION for e in edges):
        spec = graph_spec_u(names, edges, roots, umix, d.get("inline", "string"))
    else:
        spec = graph_spec(names, edges, roots)
    # `deprecated: true` on some schemas (an annotation: it must not move Box, `#[default]` or the variant order)
    assert all(x in names for x in d.get("deprecated") or [])
    for n in d.get("deprecated") or []:
        spec["components"]["schemas"][n]["deprecated"] = True
    base = {"spec": spec, "cfg": {"all_schemas": True, "no_helpers": bool(d.get("no_helpers"))}, "mode": "client-mod", "judges": ["size", "default"],
            "schemas": spec["components"]["schemas"]}      # the schemas: model of the boxing rule, class predicates
    if case["op"] == "graph.analyze":
        base["ops"] = selected_ops(spec)
    return {"op": case["op"], "in": dict(d, **base)}


def cases(ctx):
    r = ctx.rng
    out = []
    two = [(n, e) for n, e in all_two_node_graphs() if not has_allof_cycle(n, e)]
    if ctx.quick:
        two = r.sample(two, 300)
    for names, edges in two:
        out.append({"op": "graph.emit", "in": {"names": names, "edges": [list(e) for e in edges]}})
        if r.random() < 0.3:
            out.append({"op": "graph.analyze", "in": {"names": names, "edges": [list(e) for e in edges]}})
    three = []
    if not ctx.quick:
        three = [(n, e) for n, e in three_node_graphs(3) if not has_allof_cycle(n, e)]
        three = r.sample(three, min(len(three), 20000))
    else:
        pool = []
        for _ in range(250):
            names = ["A", "B", "C"]
            edges = []
            for _ in range(r.randint(1, 3)):
                e = (r.choice(names), r.choice(KINDS + KINDS_EXTRA), r.choice(names))
                if e not in edges:
                    edges.append(e)
            if not has_allof_cycle(names, edges):
                pool.append((names, edges))
        three = pool
    for names, edges in three:
        out.append({"op": "graph.emit", "in": {"names": names, "edges": [list(e) for e in edges]}})
    for _ in range(100 if ctx.quick else 1500):
        names = ["A", "B", "C", "D", "E", "F"][: r.randint(3, 6)]
        if r.random() < 0.5:
            names = names[:-2] + r.sample(ODD_NAMES, 2) if len(names) > 2 else r.sample(ODD_NAMES, 2)
        edges = []
        for _ in range(r.randint(2, 9)):
            e = (r.choice(names), r.choice(KINDS + KINDS_EXTRA), r.choice(names))
            if e not in edges:
                edges.append(e)
        if has_allof_cycle(names, edges):
            continue
        out.append({"op": "graph.emit", "in": {"names": names, "edges": [list(e) for e in edges]}})
        out.append({"op": "graph.analyze", "in": {"names": names, "edges": [list(e) for e in edges]}})
    return out


def deprecate(r, cases, share):
    """mark 1-2 schemas of a share of the cases as deprecated (every non-empty subset of a two-node graph)"""
    for c in cases:
        d = c["in"]
        if "names" in d and not d.get("rt") and r.random() < share:
            d["deprecated"] = r.sample(d["names"], r.randint(1, min(2, len(d["names"]))))
    return cases


def emit_case(names, edges, **opts):
    d = {"names": list(names), "edges": [list(e) for e in edges]}
    d.update({k: v for k, v in opts.items() if v})
    return {"op": "graph.emit", "in": d}


def overflow_shape(d):
    return inline_union_cycle(graph_schemas_u(d["names"], [tuple(e) for e in d["edges"]], d.get("umix"), d.get("inline", "string")))


def union_cases(ctx):
    """unions that a recursive struct holds by value: inline unions in members / array items / map values whose
    member refers back, named unions repeated inline, with and without helper constructors.  Returns (cases,
    cases kept WITH helpers although the unchanged generator is known to die on them)."""
    r = ctx.rng
    out, risky = [], []

    def add(names, edges, **opts):
        c = emit_case(names, edges, **opts)
        if not c["in"].get("no_helpers") and overflow_shape(c["in"]):
            # known to kill the generator process (F10-3): a few are kept to pin the finding, the rest runs --no-helpers
            if len(risky) < (2 if ctx.quick else 12) and r.random() < 0.3:
                risky.append(c)
            c = emit_case(names, edges, **dict(opts, no_helpers=True))
        out.append(c)
        if r.random() < 0.25:
            out.append(dict(c, op="graph.analyze"))

    for t in UNION_TEMPLATES:
        for nh in (False, True):
            add(t["names"], t["edges"], umix=t.get("umix"), inline=t.get("inline"), no_helpers=nh)
    two = [(n, e) for n, e in two_node_union_graphs() if not has_allof_cycle(n, e)]
    if ctx.quick:
        two = r.sample(two, 150)
    for names, edges in two:
        for nh in ((False, True) if not ctx.quick else (r.random() < 0.5,)):
            add(names, edges, no_helpers=nh, inline=r.choice([None, None, "object", "integer"]))
    for _ in range(120 if ctx.quick else 2500):
        names = ["A", "B", "C", "D", "E"][: r.randint(2, 5)]
        if r.random() < 0.3 and len(names) > 2:
            names = names[:-2] + r.sample(ODD_NAMES, 2)
        edges = []
        for _ in range(r.randint(2, 7)):
            e = (r.choice(names), r.choice(KINDS_UNION if r.random() < 0.5 else KINDS + KINDS_EXTRA), r.choice(names))
            if e not in edges:
                edges.append(e)
        if has_allof_cycle(names, edges) or not any(e[1] in KINDS_UNION for e in edges):
            continue
        unions = [n for n in names if any(e[0] == n and e[1] in ("oneOf", "anyOf") for e in edges)]
        umix = {n: r.choice(list(INLINE_MEMBERS)) for n in unions if r.random() < 0.5}
        add(names, edges, umix=umix, inline=r.choice([None, None, "object", "loose", "uuid"]), no_helpers=r.random() < 0.5)
    return out, risky


RT_NAMES = {"rec": ["Operation", "Branch"], "recArr": ["Group", "AllOf"], "recOpt": ["Chain", "Link"], "loose": ["Constant", "Literal"], "strict": ["Named", "Leaf"], "closed": ["Sealed", "Exact"]}


def rt_cases(ctx):
    """recursive unions `Expr = anyOf/oneOf[...]` whose members are listed in every order: specific recursive members
    (required operator), permissive ones (nothing required), closed ones; the judge reads the variant order and the
    members' (wire name, optional) lists from the EMITTED types"""
    import itertools
    r = ctx.rng
    out = []
    rec = ("rec", "recArr", "recOpt")
    pairs = [p for p in itertools.permutations(RT_KINDS, 2) if p[0] in rec or p[1] in rec]
    allc = []
    for kinds in pairs:
        for kw in ("anyOf", "oneOf"):
            for nh in (False, True):
                allc.append({"op": "graph.emit", "in": {"rt": {"union": "Expr", "kw": kw, "members": [[RT_NAMES[k][0], k] for k in kinds]}, "no_helpers": nh}})
    out += r.sample(allc, 40) if ctx.quick else allc
    for _ in range(25 if ctx.quick else 600):
        n = r.randint(3, 4)
        kinds = [r.choice(RT_KINDS) for _ in range(n)]
        if not any(k in rec for k in kinds):
            kinds[r.randrange(n)] = r.choice(rec)
        seen = {}
        members = []
        for k in kinds:
            i = seen.get(k, 0); seen[k] = i + 1
            if i >= len(RT_NAMES[k]):
                continue
            members.append([RT_NAMES[k][i], k])
        if len(members) >= 2:
            out.append({"op": "graph.emit", "in": {"rt": {"union": r.choice(["Expr", "Node", "ZNode"]), "kw": r.choice(["anyOf", "oneOf"]), "members": members}, "no_helpers": r.random() < 0.5}})
    return out


def run(ctx):
    proofs_ok, driver_ok = ctx.build_lean(["Oas3Model.Props.C10"])
    if proofs_ok:
        ctx.audit("Oas3Model.Props.C10")
        if not ctx.quick:
            ctx.leanchecker("Oas3Model.Props.C10")
    ctx.prepare = prepare
    if driver_ok and ctx.build_harness(["k_gen"]):
        ucases, risky = union_cases(ctx)
        corpus = vlib_corpus(ctx)
        risky = [c for c in corpus if c["op"] == "graph.emit" and not c["in"].get("rt") and not c["in"].get("no_helpers") and overflow_shape(c["in"])] + risky
        risky = [c for c in risky if not c["in"].get("rt")]
        # the named documents once more with their FIRST schema(s) deprecated, and a share of everything else
        import copy
        dep = []
        for t in UNION_TEMPLATES:
            for k in (1, 2):
                for nh in (False, True):
                    for pick in (t["names"][:k], t["names"][-k:]):
                        c = emit_case(t["names"], t["edges"], umix=t.get("umix"), inline=t.get("inline"), no_helpers=nh, deprecated=list(pick))
                        if (nh or not overflow_shape(c["in"])) and c not in dep:
                            dep.append(c)
        ucases = deprecate(ctx.rng, ucases, 0.25)
        allc = [c for c in corpus if c not in risky] + dep + ucases + rt_cases(ctx) + deprecate(ctx.rng, cases(ctx), 0.2)
        B = 500
        for i in range(0, len(allc), B):
            ctx.classify(ctx.evaluate(allc[i:i + B]), tie="K+E")
            if len(ctx.violations) >= 3:
                break
        # documents on which the generator process itself dies are evaluated one by one (a dead process takes the
        # rest of its batch with it)
        for c in risky:
            if len(ctx.violations) >= 3:
                break
            ctx.classify(ctx.evaluate([c]), tie="K+E")
    return ctx.finish(
        checker_cmd="lake build Oas3Model.Props.C10 && #print axioms on every theorem" + ("" if ctx.quick else " && leanchecker"),
        trusted_base=vlib.TRUSTED_BASE + ["the by-value / Box / Vec / map / Option reading of emitted field types (harness/src/k_graph.rs::walk)", "rustc's own E0072 check is not run in the quick tier", "serde's untagged decode = first variant in declaration order whose non-optional members are present (Model/Graph.lean UVariant), documents abstracted to key sets", "better_default's Default expansion: struct -> every field without #[default(..)], enum -> the #[default] variant's payload"],
        rule="all labelled digraphs on 2 schemas over the 8 edge kinds without allOf cycles (every one thorough; 300 sampled quick), 3-schema graphs with <=3 edges (20000 sampled thorough / 250 quick), random graphs on 3-6 schemas; unions held by value: two-schema graphs with one inline-union / structural-copy edge (9 kinds, + one further edge; all: thorough, 150: quick), 8 named documents, random 2-5 schema mixes, with and without --no-helpers; `deprecated: true` on the first / last schemas of the named documents and on 1-2 schemas of a fifth of all other graphs; recursive unions anyOf/oneOf over 6 member kinds in every order of two and random orders of 3-4: the full document of every member must survive the first-accepting-variant decode under the emitted variant order; generated with --all-schemas; the emitted types' by-value containment graph and Default-construction graph must be acyclic (cycle test = the proved `cyclic`); SchemaRegistry's cyclic set compared with the model; non-trivial = >=1 type; distinct by input hash")
