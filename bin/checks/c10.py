"""C10 — recursive schemas yield finite, usable Rust types."""
import json
import vlib
from checks.c09 import vlib_corpus
from graphgen import *


def prepare(case):
    d = case["in"]
    names = d["names"]
    edges = [tuple(e) for e in d["edges"]]
    assert names and all(e[0] in names and e[2] in names and e[1] in KINDS + KINDS_EXTRA for e in edges) and not has_allof_cycle(names, edges)
    roots = d.get("roots") or names
    assert all(x in names for x in roots)
    spec = graph_spec(names, edges, roots)
    base = {"spec": spec, "cfg": {"all_schemas": True}, "mode": "client-mod", "judges": ["size", "default"]}
    if case["op"] == "graph.analyze":
        base["schemas"] = spec["components"]["schemas"]
        base["ops"] = selected_ops(spec)
    return {"op": case["op"], "in": dict(d, **base)}


def cases(ctx):
    r = ctx.rng
    out = []
    two = [(n, e) for n, e in all_two_node_graphs() if not has_allof_cycle(n, e)]
    if ctx.quick:
        two = r.sample(two, 300)
    for names, edges in two:
        out.append({"op": "graph.emit", "in": {"names": names, "edges": [list(e) for e in edges]}})
        if r.random() < 0.3:
            out.append({"op": "graph.analyze", "in": {"names": names, "edges": [list(e) for e in edges]}})
    three = []
    if not ctx.quick:
        three = [(n, e) for n, e in three_node_graphs(3) if not has_allof_cycle(n, e)]
        three = r.sample(three, min(len(three), 20000))
    else:
        pool = []
        for _ in range(250):
            names = ["A", "B", "C"]
            edges = []
            for _ in range(r.randint(1, 3)):
                e = (r.choice(names), r.choice(KINDS + KINDS_EXTRA), r.choice(names))
                if e not in edges:
                    edges.append(e)
            if not has_allof_cycle(names, edges):
                pool.append((names, edges))
        three = pool
    for names, edges in three:
        out.append({"op": "graph.emit", "in": {"names": names, "edges": [list(e) for e in edges]}})
    for _ in range(100 if ctx.quick else 1500):
        names = ["A", "B", "C", "D", "E", "F"][: r.randint(3, 6)]
        if r.random() < 0.5:
            names = names[:-2] + r.sample(ODD_NAMES, 2) if len(names) > 2 else r.sample(ODD_NAMES, 2)
        edges = []
        for _ in range(r.randint(2, 9)):
            e = (r.choice(names), r.choice(KINDS + KINDS_EXTRA), r.choice(names))
            if e not in edges:
                edges.append(e)
        if has_allof_cycle(names, edges):
            continue
        out.append({"op": "graph.emit", "in": {"names": names, "edges": [list(e) for e in edges]}})
        out.append({"op": "graph.analyze", "in": {"names": names, "edges": [list(e) for e in edges]}})
    return out


def run(ctx):
    proofs_ok, driver_ok = ctx.build_lean(["Oas3Model.Props.C10"])
    if proofs_ok:
        ctx.audit("Oas3Model.Props.C10")
        if not ctx.quick:
            ctx.leanchecker("Oas3Model.Props.C10")
    ctx.prepare = prepare
    if driver_ok and ctx.build_harness(["k_gen"]):
        allc = vlib_corpus(ctx) + cases(ctx)
        B = 500
        for i in range(0, len(allc), B):
            ctx.classify(ctx.evaluate(allc[i:i + B]), tie="K+E")
            if len(ctx.violations) >= 3:
                break
    return ctx.finish(
        checker_cmd="lake build Oas3Model.Props.C10 && #print axioms on every theorem" + ("" if ctx.quick else " && leanchecker"),
        trusted_base=vlib.TRUSTED_BASE + ["the by-value / Box / Vec / map / Option reading of emitted field types (harness/src/k_graph.rs::walk)", "rustc's own E0072 check is not run in the quick tier", "better_default's Default expansion: struct -> every field without #[default(..)], enum -> the #[default] variant's payload"],
        rule="all labelled digraphs on 2 schemas over the 8 edge kinds without allOf cycles (every one thorough; 300 sampled quick), 3-schema graphs with <=3 edges (20000 sampled thorough / 250 quick), random graphs on 3-6 schemas; generated with --all-schemas; the emitted types' by-value containment graph and Default-construction graph must be acyclic (cycle test = the proved `cyclic`); SchemaRegistry's cyclic set compared with the model; non-trivial = >=1 type; distinct by input hash")
