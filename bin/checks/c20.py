"""C20 — the SSE stream yields every event exactly once, in order, however bytes arrive."""
import itertools, json
import vlib
from checks.c09 import vlib_corpus
from specgen import resp_spec

LINES = ["data: 1", "data:2", "data: [1]", 'data: "a"', "data: x", "data:", "data", ": c", "event: e", "id: 3", "", "data: {", 'data: "é"', 'data: "😀"', "data: true", "retry: 5", "da", "data : 1",
         "data: 1 x", "data: 1 2", 'data: {"a":1} z', "data: [1]]", "data: 1 "]          # a value followed by more text (F20-5)
EOLS = ["\n", "\r\n", "\r"]


def chunkings(bs):
    n = len(bs)
    for mask in range(1 << max(n - 1, 0)):
        out, cur = [], [bs[0]] if n else []
        for i in range(1, n):
            if mask >> (i - 1) & 1:
                out.append(cur); cur = []
            cur.append(bs[i])
        if n:
            out.append(cur)
        yield out


def rand_stream(r, maxbytes):
    while True:
        s = ""
        for _ in range(r.randint(1, 6)):
            s += r.choice(LINES) + r.choice(EOLS)
            if r.random() < 0.45:
                s += r.choice(EOLS)
        b = list(s.encode())
        if r.random() < 0.03:
            b = [0xEF, 0xBB, 0xBF] + b
        if r.random() < 0.04:
            b.insert(r.randint(0, len(b)), r.choice([0xFF, 0xC0, 0x80, 0xE0]))
        if len(b) <= maxbytes:
            return b


def rand_script(r, b):
    out, i = [], 0
    while i < len(b):
        if r.random() < 0.25:
            out.append(r.choice(PENDS))
        if r.random() < 0.05:
            out.append([])
        k = r.randint(1, max(1, min(6, len(b) - i)))
        out.append(b[i:i + k]); i += k
    if r.random() < 0.3:
        out.append(r.choice(PENDS))
    return out


# ---- long runs of events that never reach the consumer (heartbeats), between real events -------
PENDS = ["p", "p", "w"]          # "p": Pending, woken after the call; "w": Pending, woken inside the call
HEARTBEATS = ["data:\n\n", "data\n\n", "data: \n\n"]                      # the three spellings of an empty-data event
NOISE = [": keep-alive\n\n", ": c\n", "id: 7\n\n", "event: ping\n\n", "retry: 100\n\n", "id\n\n", "event: e\nid: 1\n\n", "\n", "retry: x\n\n", ":\n\n"]
REALS = ["data: 1\n\n", 'data: "a"\n\n', "data: x\n\n", "data: [1]\n\n", "event: e\ndata: 2\n\n", "data: {\n\n", "id: 9\ndata: true\n\n", "data: 3\ndata: 4\n\n"]
RUN_LENGTHS = [0, 1, 5, 31, 32, 33, 63, 64, 65, 100, 200]


def hb_events(r, n, spelling):
    """n heartbeats: spelling 0..2 = one spelling, 3 = mixed, 4 = mixed with comment / id / event / retry-only events in between"""
    ev = []
    for _ in range(n):
        ev.append(HEARTBEATS[spelling] if spelling < 3 else r.choice(HEARTBEATS))
        if spelling == 4 and r.random() < 0.3:
            ev.append(r.choice(NOISE))
    return ev


def hb_stream(r, n, spelling):
    """list of events (strings): real, run of n, real, second (short) run or noise only, real"""
    ev = [r.choice(REALS)] + hb_events(r, n, spelling) + [r.choice(REALS)]
    m = r.choice([0, 0, 1, 3, n, r.randint(0, 40)])
    ev += (hb_events(r, m, r.randint(0, 4)) if r.random() < 0.7 else [r.choice(NOISE) for _ in range(m)]) + [r.choice(REALS)]
    eol = r.choice(["\n", "\n", "\n", "\r\n", "\r"])
    return [e.replace("\n", eol) for e in ev]


def hb_scripts(r, ev):
    """one chunk / every byte / one chunk per event back to back / Pending inside the run / random chunking and schedule"""
    bs = [list(e.encode()) for e in ev]
    flat = [b for e in bs for b in e]
    yield [flat]
    yield [[b] for b in flat]
    yield [e for e in bs]
    j = r.randint(1, max(1, len(bs) - 1))
    yield [[b for e in bs[:j] for b in e], r.choice(PENDS), [b for e in bs[j:] for b in e]]
    out = []
    i = 0
    while i < len(bs):
        k = r.choice([1, 1, 2, 7, 31, 32, 33, 50])
        out.append([b for e in bs[i:i + k] for b in e]); i += k
        if r.random() < 0.35:
            out.append(r.choice(PENDS))
    yield out
    yield rand_script(r, flat)


def hb_cases(ctx):
    r = ctx.rng
    out = []
    lengths = (RUN_LENGTHS + [r.randint(2, 199) for _ in range(3)]) if ctx.quick else list(range(0, 201))
    for n in lengths:
        for spelling in range(5):
            if ctx.quick and spelling >= 3 and n not in (32, 33, 200) and r.random() < 0.5:
                continue
            ev = hb_stream(r, n, spelling)
            for sc in hb_scripts(r, ev):
                out.append({"op": "sse.run", "in": {"script": sc}})
    return out


# ---- how the stream is obtained: `text/event-stream` next to other media types under one status ----
STREAM_KINDS = ["ref:Pet", "string", "integer", "ref:Err"]
OTHER_MEDIA = {
    "json": [["application/json", "ref:Pet"], ["application/problem+json", "ref:Err"], ["application/vnd.api+json", "integer"], ["application/json", "string"]],
    # text-like types that sort BEFORE `text/event-stream` in the content map ...
    "text<": [["application/x-ndjson", "string"], ["application/x-ndjson", "ref:Pet"], ["application/yaml", "string"], ["application/jsonl", "string"],
              ["text/csv", "string"], ["text/csv", "ref:Pet"], ["text/css", "string"], ["text/calendar", "integer"]],
    # ... and after it
    "text>": [["text/plain", "string"], ["text/plain", "integer"], ["text/html", "string"], ["text/markdown", "string"], ["text/x-log", "ref:Pet"]],
    "xml": [["application/xml", "ref:Err"], ["text/xml", "ref:Err"], ["application/soap+xml", "ref:Err"]],
    "binary": [["application/octet-stream", None], ["application/octet-stream", "string"], ["image/png", None], ["application/pdf", None], ["audio/mpeg", None]],
    "form": [["application/x-www-form-urlencoded", "ref:Pet"]],
}
OBTAIN_KEYS = [["200"], ["200", "default"], ["2XX"], ["200", "404"], ["201", "2XX", "default"], ["default"], ["200", "2XX", "4XX", "default"]]


def mk_obtain(responses):
    return {"op": "sse.obtain", "in": {"responses": responses}}


def obtain_cases(ctx):
    r = ctx.rng
    out = []
    cats = list(OTHER_MEDIA)
    # every single other media type, and every pair of categories, next to the event stream under "200"
    for c in cats:
        for m in OTHER_MEDIA[c]:
            out.append(mk_obtain([["200", [m, ["text/event-stream", "ref:Pet"]]]]))
    for a, b in itertools.combinations(cats, 2):
        for _ in range(1 if ctx.quick else 4):
            out.append(mk_obtain([["200", [r.choice(OTHER_MEDIA[a]), r.choice(OTHER_MEDIA[b]), ["text/event-stream", r.choice(STREAM_KINDS)]]]]))
    for _ in range(200 if ctx.quick else 2500):
        keys = r.choice(OBTAIN_KEYS)
        resp = []
        for k in keys:
            lay, seen = [], set()
            for _ in range(r.randint(0, 4)):
                m = r.choice(OTHER_MEDIA[r.choice(cats)])
                if m[0] not in seen:
                    seen.add(m[0]); lay.append(m)
            if r.random() < 0.75 or k == keys[0]:
                lay.insert(r.randint(0, len(lay)), ["text/event-stream", r.choice(STREAM_KINDS)])
            resp.append([k, lay])
        out.append(mk_obtain(resp))
    return out


def prepare(case):
    """derived fields (the OpenAPI document) are rebuilt from the primary data at evaluation time"""
    if case["op"] != "sse.obtain":
        return case
    rs = case["in"]["responses"]
    return {"op": case["op"], "in": {"responses": rs, "spec": resp_spec(rs), "mode": "client-mod", "cfg": {}, "opreq": "OpRequest", "openum": "OpResponse"}}


def cases(ctx):
    r = ctx.rng
    out = []
    nb = 10 if ctx.quick else 14
    base = [b"data: 1\n\n", b"data:1\r\n\r\n", b"data: 1\r\r", b"data: x\n\n", b"d:\n\ndata:2\n\n", 'data:"é"\n\n'.encode(), b":c\ndata:1\n\n", b"data:1\ndata:2\n\n", b"data\n\ndata:1\n\n", b"\n\ndata:1\r\n\n", b"data: 1\n", b"\rdata:1\r\r\n"]
    if not ctx.quick:
        base += [rand_stream(r, nb) for _ in range(28)]
    for bs in base:
        bs = list(bs)[:nb]
        for ch in chunkings(bs):
            out.append({"op": "sse.run", "in": {"script": ch}})
    for _ in range(1500 if ctx.quick else 5000):
        b = rand_stream(r, 60)
        out.append({"op": "sse.run", "in": {"script": rand_script(r, b)}})
    return out + hb_cases(ctx)


def run(ctx):
    proofs_ok, driver_ok = ctx.build_lean(["Oas3Model.Props.C20"])
    if proofs_ok:
        ctx.audit("Oas3Model.Props.C20")
        if not ctx.quick:
            ctx.leanchecker("Oas3Model.Props.C20")
    ctx.prepare = prepare
    if driver_ok and ctx.build_harness([], bins=("sse",)):
        bins = dict(ctx.bins)
        corpus = vlib_corpus(ctx)
        allc = [c for c in corpus if c["op"] == "sse.run"] + cases(ctx)
        B = 2500
        for i in range(0, len(allc), B):
            ctx.classify(ctx.evaluate(allc[i:i + B], bin="sse"), tie="K")
            if len(ctx.violations) >= 3:
                break
        # tie E: the client is generated in-process and its parse_response is asked for the event stream
        if len(ctx.violations) < 3 and ctx.build_harness(["k_gen"]):
            ctx.bins.update(bins)
            oc = [c for c in corpus if c["op"] == "sse.obtain"] + obtain_cases(ctx)
            for i in range(0, len(oc), 400):
                ctx.classify(ctx.evaluate(oc[i:i + 400], tie="E"), tie="E")
                if len(ctx.violations) >= 3:
                    break
    return ctx.finish(
        checker_cmd="lake build Oas3Model.Props.C20 && #print axioms on every theorem" + ("" if ctx.quick else " && leanchecker"),
        trusted_base=vlib.TRUSTED_BASE + ["eventsource-stream 0.2.3 + nom streaming combinators: modelled in Sem/Sse.lean, validated by running the real crate under the real wrapper", "reqwest body plumbing (bytes_stream) passes chunks, Pending and the task's waker through unchanged (validated by the same runs: a kept waker that does not reach the task shows as a stall)", "the harness executor (harness/src/sse.rs): counting waker, re-poll after Pending only if the counter moved; a transport that answered Pending is assumed to wake the waker it was given (the scripted one does)", "payload decoder dec is a parameter of every theorem; the driver instantiates it with Lean's JSON parser on a payload alphabet where it agrees with serde_json", "sse.obtain: syn-based extraction of the emitted parse_response chain (harness/src/facts.rs) and the chain semantics of Model/Responses.lean (evalChain) stand for the run-time behaviour of the generated client; the emitted code is not compiled or executed here"],
        rule="real EventStream<serde_json::Value> over a scripted reqwest body, driven by an executor that re-polls only after a wake-up: all 2^(n-1) chunkings of 12 (quick) / 40 (thorough) base streams of <=10 / <=14 bytes incl. CRLF/CR/LF, comments, multi-line and empty data, malformed JSON, multi-byte text, + random longer streams with random chunkings and both kinds of Pending (woken later / woken at once), BOM and invalid bytes, + runs of 0..200 empty-data events in 5 spellings between real events under 6 deliveries (one chunk, every byte, per event, Pending inside the run, blocks with Pendings, random); + (tie E) response sets with text/event-stream next to media types of every category under one status, client generated in-process, emitted parse_response chain judged on both text/event-stream spellings for all 500 status codes; non-trivial = the stream holds >=1 event, or is cut into >=2 chunks, or holds a skipped event / the response set declares a typed event stream; distinct by input hash",
        assumptions=["the transport yields the scripted chunks in order", "a transport that answers Pending wakes the waker it was given, eventually (fairness of the reactor)", "variant doc comments (`KEY: description`) identify the response key a variant was declared for", "JSON payloads are drawn from an alphabet on which Lean's parser and serde_json agree"])
