"""C20 — the SSE stream yields every event exactly once, in order, however bytes arrive."""
import itertools, json
import vlib
from checks.c09 import vlib_corpus

LINES = ["data: 1", "data:2", "data: [1]", 'data: "a"', "data: x", "data:", "data", ": c", "event: e", "id: 3", "", "data: {", 'data: "é"', 'data: "😀"', "data: true", "retry: 5", "da", "data : 1"]
EOLS = ["\n", "\r\n", "\r"]


def chunkings(bs):
    n = len(bs)
    for mask in range(1 << max(n - 1, 0)):
        out, cur = [], [bs[0]] if n else []
        for i in range(1, n):
            if mask >> (i - 1) & 1:
                out.append(cur); cur = []
            cur.append(bs[i])
        if n:
            out.append(cur)
        yield out


def rand_stream(r, maxbytes):
    while True:
        s = ""
        for _ in range(r.randint(1, 6)):
            s += r.choice(LINES) + r.choice(EOLS)
            if r.random() < 0.45:
                s += r.choice(EOLS)
        b = list(s.encode())
        if r.random() < 0.03:
            b = [0xEF, 0xBB, 0xBF] + b
        if r.random() < 0.04:
            b.insert(r.randint(0, len(b)), r.choice([0xFF, 0xC0, 0x80, 0xE0]))
        if len(b) <= maxbytes:
            return b


def rand_script(r, b):
    out, i = [], 0
    while i < len(b):
        if r.random() < 0.25:
            out.append("p")
        if r.random() < 0.05:
            out.append([])
        k = r.randint(1, max(1, min(6, len(b) - i)))
        out.append(b[i:i + k]); i += k
    if r.random() < 0.3:
        out.append("p")
    return out


def cases(ctx):
    r = ctx.rng
    out = []
    nb = 10 if ctx.quick else 14
    base = [b"data: 1\n\n", b"data:1\r\n\r\n", b"data: 1\r\r", b"data: x\n\n", b"d:\n\ndata:2\n\n", 'data:"é"\n\n'.encode(), b":c\ndata:1\n\n", b"data:1\ndata:2\n\n", b"data\n\ndata:1\n\n", b"\n\ndata:1\r\n\n", b"data: 1\n", b"\rdata:1\r\r\n"]
    if not ctx.quick:
        base += [rand_stream(r, nb) for _ in range(28)]
    for bs in base:
        bs = list(bs)[:nb]
        for ch in chunkings(bs):
            out.append({"op": "sse.run", "in": {"script": ch}})
    for _ in range(1500 if ctx.quick else 5000):
        b = rand_stream(r, 60)
        out.append({"op": "sse.run", "in": {"script": rand_script(r, b)}})
    return out


def run(ctx):
    proofs_ok, driver_ok = ctx.build_lean(["Oas3Model.Props.C20"])
    if proofs_ok:
        ctx.audit("Oas3Model.Props.C20")
        if not ctx.quick:
            ctx.leanchecker("Oas3Model.Props.C20")
    if driver_ok and ctx.build_harness([], bins=("sse",)):
        allc = vlib_corpus(ctx) + cases(ctx)
        B = 5000
        for i in range(0, len(allc), B):
            ctx.classify(ctx.evaluate(allc[i:i + B], bin="sse"), tie="K")
            if len(ctx.violations) >= 3:
                break
    return ctx.finish(
        checker_cmd="lake build Oas3Model.Props.C20 && #print axioms on every theorem" + ("" if ctx.quick else " && leanchecker"),
        trusted_base=vlib.TRUSTED_BASE + ["eventsource-stream 0.2.3 + nom streaming combinators: modelled in Sem/Sse.lean, validated by running the real crate under the real wrapper", "reqwest body plumbing (bytes_stream) passes chunks and Pending through unchanged (validated by the same runs)", "payload decoder dec is a parameter of every theorem; the driver instantiates it with Lean's JSON parser on a payload alphabet where it agrees with serde_json"],
        rule="real EventStream<serde_json::Value> over a scripted reqwest body, polled by hand: all 2^(n-1) chunkings of 12 (quick) / 40 (thorough) base streams of <=10 / <=14 bytes incl. CRLF/CR/LF, comments, multi-line and empty data, malformed JSON, multi-byte text, + random longer streams with random chunkings and Pending interleavings, BOM and invalid bytes; non-trivial = the stream holds >=1 event or is cut into >=2 chunks; distinct by script",
        assumptions=["the transport yields the scripted chunks in order", "JSON payloads are drawn from an alphabet on which Lean's parser and serde_json agree"])
