"""C12 — generation always ends cleanly: no panic, abort or hang, no half-written output (real CLI)."""
import copy, hashlib, json, os, shutil
import vlib
from specgen import ops_spec, base_spec
from graphgen import graph_spec, KINDS
from checks.c11 import FIXTURES
import cligrammar as G

MODES = ["types", "client", "client-mod", "server-mod"]
ALL_METHODS = ["get", "put", "post", "delete", "options", "head", "patch", "trace"]
ODD_NAMES = ["", " ", "_", "crate", "super", "self", "Self", "r#1", "r#type", "type", "fn", "1abc", "a b", "ünï", "😀", "x" * 3000, "a/b", "a~1b", "{x}", "$ref", "-", "--", "A", "a"]


def walk(v, path=()):
    yield path, v
    if isinstance(v, dict):
        for k, x in v.items():
            yield from walk(x, path + (k,))
    elif isinstance(v, list):
        for i, x in enumerate(v):
            yield from walk(x, path + (i,))


def get(v, path):
    for p in path:
        v = v[p]
    return v


def setp(v, path, x):
    for p in path[:-1]:
        v = v[p]
    v[path[-1]] = x


def mutate(spec, r):
    s = copy.deepcopy(spec)
    nodes = list(walk(s))
    comps = s.get("components") if isinstance(s, dict) else None
    kind = r.choice(["retarget", "retarget", "delete", "confuse", "rename", "methods", "nest", "contradict", "allofcycle", "selfref", "pathedit"])
    sch = comps.get("schemas") if isinstance(comps, dict) else None
    schemas = list(sch.keys()) if isinstance(sch, dict) else []
    try:
        if kind == "retarget":
            refs = [p for p, v in nodes if isinstance(v, dict) and "$ref" in v]
            if refs:
                p = r.choice(refs)
                tgt = r.choice(schemas + ["Nope", ""]) if schemas else "Nope"
                get(s, p)["$ref"] = r.choice(["#/components/schemas/" + tgt, "#/components/schemas/" + tgt, "other.yaml#/X", "#/components/parameters/" + tgt, "#/paths/~1a"])
        elif kind == "delete":
            cands = [p for p, v in nodes if p and isinstance(get(s, p[:-1]), dict)]
            if cands:
                p = r.choice(cands)
                del get(s, p[:-1])[p[-1]]
        elif kind == "confuse":
            cands = [p for p, v in nodes if p]
            if cands:
                p = r.choice(cands)
                setp(s, p, r.choice([None, True, 0, -1, 1.5, "", "x", [], {}, [1], {"a": 1}]))
        elif kind == "rename":
            cands = [p for p, v in nodes if p and isinstance(get(s, p[:-1]), dict) and (len(p) >= 2 and p[-2] in ("properties", "schemas") or p[-1] in ("name", "operationId", "title", "propertyName"))]
            if cands:
                p = r.choice(cands)
                new = r.choice(ODD_NAMES)
                if p[-1] in ("name", "operationId", "title", "propertyName"):
                    setp(s, p, new)
                else:
                    d = get(s, p[:-1])
                    d[new] = d.pop(p[-1])
        elif kind == "methods":
            paths = s.get("paths") or {}
            if paths:
                pk = r.choice(list(paths))
                item = paths[pk]
                ops = [v for k, v in item.items() if k in ALL_METHODS]
                if ops:
                    for m in r.sample(ALL_METHODS, r.randint(1, 4)):
                        o = copy.deepcopy(ops[0]); o["operationId"] = (o.get("operationId") or "op") + "_" + m
                        item[m] = o
        elif kind == "nest":
            if schemas:
                inner = {"type": "object", "properties": {"v": {"type": "string"}}}
                for _ in range(r.choice([5, 30, 120])):
                    inner = {"type": "object", "properties": {"n": inner}}
                s["components"]["schemas"][r.choice(schemas)] = inner
        elif kind == "contradict":
            cands = [p for p, v in nodes if isinstance(v, dict) and v.get("type") in ("integer", "number", "string", "array")]
            if cands:
                v = get(s, r.choice(cands))
                v.update(r.choice([{"minimum": 10, "maximum": 1}, {"minLength": 5, "maxLength": 2}, {"minItems": 3, "maxItems": 1}, {"pattern": "(["}, {"enum": []}, {"default": {"a": []}}, {"multipleOf": 0}, {"minimum": 1e400 if False else 1e308}, {"maximum": -9223372036854775809}]))
        elif kind == "allofcycle":
            if len(schemas) >= 2:
                a, b = r.sample(schemas, 2)
                s["components"]["schemas"][a].setdefault("allOf", []).append({"$ref": "#/components/schemas/" + b})
                s["components"]["schemas"][b].setdefault("allOf", []).append({"$ref": "#/components/schemas/" + a})
        elif kind == "selfref":
            if schemas:
                a = r.choice(schemas)
                s["components"]["schemas"][a] = r.choice([{"$ref": "#/components/schemas/" + a}, {"allOf": [{"$ref": "#/components/schemas/" + a}]}, {"oneOf": [{"$ref": "#/components/schemas/" + a}]}, {"type": "array", "items": {"$ref": "#/components/schemas/" + a}}])
        elif kind == "pathedit":
            paths = s.get("paths") or {}
            if paths:
                pk = r.choice(list(paths))
                chars = list(pk)
                for _ in range(r.randint(1, 2)):
                    braces = [i for i, c in enumerate(chars) if c in "{}"]
                    # mostly next to a template parameter, where the tokenizer slices
                    at = r.choice(braces) + r.choice([0, 1]) if braces and r.random() < 0.7 else r.randint(0, len(chars))
                    chars[at:at] = list(r.choice(["\u00e9", "\u20ac", "\u65e5\u672c", "\U0001f600", " ", "%", "%2F", "{", "}", "//", "{}", "?q=1", "#f", ".", "-", "\\"]))
                new = "".join(chars)
                if new not in paths:
                    paths[new] = paths.pop(pk)
    except (KeyError, IndexError, TypeError, AttributeError):
        pass
    return s, kind


def listing(root):
    out = []
    if os.path.isfile(root):
        return [[os.path.basename(root), hashlib.sha1(open(root, "rb").read()).hexdigest()]]
    for dp, dn, fn in os.walk(root):
        for f in sorted(fn):
            p = os.path.join(dp, f)
            out.append([os.path.relpath(p, root), hashlib.sha1(open(p, "rb").read()).hexdigest()])
    return sorted(out)


def tree(root):
    """files (with content hash) AND directories below root"""
    out = []
    for dp, dn, fn in os.walk(root):
        for x in sorted(dn):
            out.append([os.path.relpath(os.path.join(dp, x), root) + "/", "dir"])
        for f in sorted(fn):
            p = os.path.join(dp, f)
            try:
                out.append([os.path.relpath(p, root), hashlib.sha1(open(p, "rb").read()).hexdigest()])
            except OSError:
                out.append([os.path.relpath(p, root), "unreadable"])
    return sorted(out)


def run_one(ctx, d, spec, mode, target, tag, flags=()):
    """mode: one of MODES, or 'list' (`list operations`, which promises no file)"""
    spec_path = os.path.join(d, f"spec_{tag}.json")
    json.dump(spec, open(spec_path, "w"))
    # every run gets a directory of its own, so that files dropped NEXT TO the target are seen too
    cd = os.path.join(d, f"case_{tag}")
    os.makedirs(cd)
    out = os.path.join(cd, "out")
    single = mode in ("types", "client")
    outp = out + ".rs" if single else out
    if target == "preexisting":
        if single:
            open(outp, "w").write("// precious\n")
        else:
            os.makedirs(outp); open(os.path.join(outp, "types.rs"), "w").write("// precious\n")
    elif target == "nondir":
        if single:
            os.makedirs(outp)                      # a directory where a file is expected
        else:
            open(outp, "w").write("i am a file\n")  # a file where a directory is expected
    elif target == "readonly":
        os.makedirs(out + "_ro"); os.chmod(out + "_ro", 0o555)
        outp = os.path.join(out + "_ro", "x.rs" if single else "sub")
    elif target == "blocked-second-file" and not single:
        os.makedirs(outp); os.makedirs(os.path.join(outp, "client.rs" if mode == "client-mod" else "server.rs"))
    before_out = listing(outp) if os.path.exists(outp) else []
    before = tree(cd)
    flags = list(flags)
    # target "closed-stdout": an ordinary run (no -q) whose stdout is a pipe nobody reads; generation itself has to succeed
    closed = target == "closed-stdout"
    args = ["list", "operations", "-i", spec_path] if mode == "list" else ["generate", mode, "-i", spec_path, "-o", outp] + ([] if closed else ["-q"]) + flags
    rc, so, se, to = ctx.run_cli(args, timeout=10 if ctx.quick else 20, env={"RUST_BACKTRACE": "0"}, stdout_closed=closed)
    if target == "readonly":
        os.chmod(out + "_ro", 0o755)
    after = tree(cd)
    after_out = listing(outp) if os.path.exists(outp) else []
    written = [f for f, h in after_out if [f, h] not in before_out]
    tgt = "ok" if target in ("ok", "preexisting", "closed-stdout") else target
    if target == "preexisting":
        tgt = "ok"
    is_root = os.geteuid() == 0
    if target == "readonly" and is_root:
        tgt = "ok"        # root ignores directory permissions: the write is expected to succeed
    return {"op": "cli.outcome", "in": {"spec": spec, "mode": mode, "target": tgt, "flags": flags}, "primary": {"spec_file": spec_path, "mode": mode, "target": target, "flags": flags},
            "impl": {"rc": rc, "timeout": to, "before": before if target != "preexisting" else before, "after": after, "written": written, "stderr": se[-1500:]}}


def run(ctx):
    ctx.translate(["panicsites"])
    proofs_ok, driver_ok = ctx.build_lean(["Oas3Model.Props.C12"])
    if proofs_ok:
        ctx.audit("Oas3Model.Props.C12")
        if not ctx.quick:
            ctx.leanchecker("Oas3Model.Props.C12")
    r = ctx.rng
    if driver_ok and ctx.build_cli():
        bases = []
        for f in (FIXTURES if not ctx.quick else r.sample(FIXTURES, 3)):
            p = os.path.join(vlib.REPO, "crates/oas3-gen/fixtures", f)
            if os.path.exists(p):
                bases.append(json.load(open(p)))
        bases.append(graph_spec(["A", "B", "C"], [("A", "req", "B"), ("B", "arr", "C"), ("C", "oneOf", "A"), ("C", "oneOf", "B"), ("B", "allOf", "A")], ["A", "C"]))
        bases.append(ops_spec([{"opid": "listPets", "method": "get", "path": "/pets/{id}", "params": [{"name": "id", "in": "path", "level": "op", "type": "string"}, {"name": "limit", "in": "query", "level": "op", "type": "integer"}], "body": None, "responses": [["200", [["application/json", "ref:Pet"]]], ["default", []]]},
                               {"opid": "createPet", "method": "post", "path": "/pets", "params": [], "body": {"content": [["application/json", "ref:Pet"]], "required": True}, "responses": [["201", [["application/json", "ref:Pet"]]]]}]))
        d = ctx.scratch("runs")
        batch, n = [], (160 if ctx.quick else 3000)
        # fixed witnesses first
        cyc = graph_spec(["A", "B"], [], ["A"]); cyc["components"]["schemas"]["A"]["allOf"] = [{"$ref": "#/components/schemas/B"}]; cyc["components"]["schemas"]["B"]["allOf"] = [{"$ref": "#/components/schemas/A"}]
        batch.append(run_one(ctx, d, cyc, "types", "ok", "w_allof"))
        opt = ops_spec([{"opid": "o", "method": "options", "path": "/a", "params": [], "body": None, "responses": [["200", []]]}])
        batch.append(run_one(ctx, d, opt, "client-mod", "ok", "w_options"))
        cr = base_spec(); cr["components"]["schemas"]["Pet"]["properties"]["crate"] = {"type": "string"}; cr["paths"]["/p"] = {"get": {"operationId": "p", "responses": {"200": {"description": "d", "content": {"application/json": {"schema": {"$ref": "#/components/schemas/Pet"}}}}}}}
        batch.append(run_one(ctx, d, cr, "types", "ok", "w_crate"))
        batch.append(run_one(ctx, d, bases[-1], "client-mod", "blocked-second-file", "w_partial"))
        for tgt in ("preexisting", "nondir", "readonly"):
            for mode in ("types", "client-mod"):
                batch.append(run_one(ctx, d, bases[-1], mode, tgt, f"w_{tgt}_{mode}"))
        # stdout gone (finding F12-9, repaired): `list operations | head`, progress lines of `generate` into a closed pipe
        for mode in ("list", "types", "client-mod", "server-mod"):
            batch.append(run_one(ctx, d, bases[-1], mode, "closed-stdout", f"w_closed_{mode}"))
        # the path-template grammar, segment by segment: literal / parameter arrangements over ASCII and
        # multi-byte literals, and every malformed brace shape
        lits = ["a", "\u00e9", "\u20acx", "\u65e5\u672c", "a-b", "%20", "\U0001f600", "x.y"]
        segs = []
        for l in lits:
            segs += [l, l + "{id}", "{id}" + l, l + "{id}" + l]
        segs += ["{id}", "{id}{k}", "{id}-{k}", "{", "}", "{}", "{a{b}}", "a}b{", "{id", "id}", "\u00e9}", "\u00e9{", "{\u00e9}", "{id}\u00e9{k}", ""]
        if ctx.quick:
            segs = r.sample(segs, 24)
        for i, sg in enumerate(segs):
            sp = copy.deepcopy(bases[-1])
            names = [x for x in ("id", "k", "\u00e9", "a{b") if "{" + x + "}" in sg]
            op = {"operationId": "seg" + str(i), "parameters": [{"name": n, "in": "path", "required": True, "schema": {"type": "string"}} for n in names],
                  "responses": {"200": {"description": "ok"}}}
            sp["paths"] = {"/v/" + sg + r.choice(["", "/tail", "/{t}"]): {"get": op}}
            if "{t}" in list(sp["paths"])[0]:
                op["parameters"].append({"name": "t", "in": "path", "required": True, "schema": {"type": "string"}})
            c = run_one(ctx, d, sp, r.choice(MODES), "ok", f"seg{i}")
            c["primary"]["segment"] = sg
            batch.append(c)
        # ---- value grammar: enum / const / anyOf / oneOf shapes with values of every JSON kind in every position,
        # under every enum mode, with and without helper methods
        def flush():
            nonlocal batch
            if batch:
                ctx.judge_direct(batch, tie="E-cli"); batch = []
        vi = 0
        def value_case(shape, vals, pos, mode, flags):
            nonlocal vi
            c = run_one(ctx, d, G.place(G.enum_shape(shape, vals), pos), mode, "ok", f"val{vi}", flags)
            c["primary"].update({"family": "values", "shape": shape, "values": vals, "position": pos}); vi += 1
            batch.append(c)
        for i, (shape, vals, pos) in enumerate(G.value_fixed_family()):
            # the fixed family: default flags (helpers on), modes in rotation; thorough: every mode x enum mode x helpers
            if ctx.quick:
                value_case(shape, vals, pos, MODES[i % 4], [] if i % 3 else ["--enum-mode", G.ENUM_MODES[(i // 3) % 3]])
            else:
                for mode in MODES:
                    for em in G.ENUM_MODES:
                        for nh in ([], ["--no-helpers"]):
                            value_case(shape, vals, pos, mode, ["--enum-mode", em] + nh)
                flush()
        for i in range(45 if ctx.quick else 1200):
            value_case(r.choice(G.ENUM_SHAPES), G.random_values(r), r.choice(G.POSITIONS), r.choice(MODES + (["list"] if i % 10 == 0 else [])), G.random_flags(r))
            if len(batch) >= 60:
                flush()
        flush()
        # ---- cycle grammar: a component that reaches itself (or a sibling that points back) through 1-3 composition
        # keywords, the inner links in INLINE schemas
        ci = 0
        def cycle_case(chain, tgt, rich, back, mode, flags=(), used=True):
            nonlocal ci
            c = run_one(ctx, d, G.cycle_doc(chain, tgt, rich, back, used), mode, "ok", f"cyc{ci}", flags)
            c["primary"].update({"family": "cycles", "chain": list(chain), "to": tgt, "rich": rich, "back": back}); ci += 1
            batch.append(c)
        for i, (chain, tgt, rich, back) in enumerate(G.cycle_fixed_family()):
            for mode in ([MODES[i % 4]] if ctx.quick else MODES + ["list"]):
                cycle_case(chain, tgt, rich, back, mode)
            if len(batch) >= 60:
                flush()
        chains = G.all_chains(3)
        short = [c for c in chains if len(c) <= 2]
        todo = [(c, t, rich) for c in short for t in ("self", "sib") for rich in (False, True)] if not ctx.quick else []
        for i in range(30 if ctx.quick else 900):
            todo.append((r.choice(chains if r.random() < 0.6 else short), r.choice(["self", "sib"]), r.random() < 0.5))
        for i, (chain, tgt, rich) in enumerate(todo):
            cycle_case(chain, tgt, rich, r.choice(G.KEYWORDS) if r.random() < 0.3 else None, r.choice(MODES), G.random_flags(r) if r.random() < 0.3 else (), used=r.random() < 0.85)
            if len(batch) >= 60:
                flush()
        flush()
        # ---- witnesses of the crash shapes that exist on the unchanged tree (each must stay attributed to its class)
        wit = {}
        cp = os.path.join(vlib.VERIF, "corpus", "C12.jsonl")
        if os.path.exists(cp):
            for k, l in enumerate(open(cp, encoding="utf-8")):
                if l.strip():
                    e = json.loads(l)["in"]
                    wit[f"corpus{k}"] = (e["spec"], e["mode"], e.get("flags", []))
        for tag, (sp, mode, fl) in wit.items():
            batch.append(run_one(ctx, d, sp, mode, "ok", tag, fl))
        flush()
        bad = dict(bases[-1]); bad = copy.deepcopy(bad); bad["paths"] = "nope"
        batch.append(run_one(ctx, d, bad, "client-mod", "preexisting", "w_fail_preexisting"))
        for i in range(n):
            base = r.choice(bases)
            spec, kinds = base, []
            for _ in range(r.randint(1, 3)):
                spec, k = mutate(spec, r); kinds.append(k)
            mode = r.choice(MODES)
            c = run_one(ctx, d, spec, mode, "ok", f"m{i}", G.random_flags(r) if r.random() < 0.25 else ())
            c["primary"]["mutations"] = kinds
            batch.append(c)
            if len(batch) >= 60:
                ctx.judge_direct(batch, tie="E-cli"); batch = []
                if len(ctx.violations) >= 3:
                    break
        if batch:
            ctx.judge_direct(batch, tie="E-cli")
        # keep the spec files of violations as replay material
        for v in ctx.violations:
            sf = v["case"]["in"].get("spec_file")
            if sf and os.path.exists(sf):
                keep = os.path.join(vlib.VERIF, "evidence", "replay", "C12_" + os.path.basename(sf))
                os.makedirs(os.path.dirname(keep), exist_ok=True)
                shutil.copyfile(sf, keep); v["case"]["in"]["spec_file"] = keep
    return ctx.finish(
        checker_cmd="lake build Oas3Model.Props.C12 && #print axioms on every theorem" + ("" if ctx.quick else " && leanchecker"),
        trusted_base=vlib.TRUSTED_BASE + ["the oas3 parser, tokio and the OS are outside the model; their behaviour is only observed through real CLI runs", "the panic-site table is produced by a regex-level scan (tools/extract.py: gen_panicsites) and justified by a reviewed list"],
        rule="the REAL binary on fixtures and generated specs passed through 1-3 structure-aware mutators (ref retargeting incl. dangling/external/self/cyclic, allOf cycles, deletion, type confusion, empty/huge/keyword/odd names, edits of path templates (non-ASCII, stray/nested braces, odd characters next to a parameter), all 8 HTTP methods, deep nesting, contradictory constraints; a quarter of them under random --enum-mode / --no-helpers / --enable-builders / --all-schemas) x 4 modes (160 quick / 3000 thorough) + the path-template segment grammar ({literal, parameter} arrangements over ASCII / multi-byte literals, malformed braces; 24 quick / 47 thorough) + the VALUE grammar (17 enum / const / anyOf / oneOf shapes incl. the relaxed patterns anyOf[string, enum...] x values of every JSON kind: null, integers, > i64::MAX, > u64::MAX, < i64::MIN, floats, booleans, arrays, objects, empty and keyword-like strings, duplicates, the empty list x 8 positions x enum mode x helpers; fixed family of 22 always, thorough x 4 modes x 3 enum modes x helpers on/off; + 45 quick / 1200 thorough random) + the CYCLE grammar (component A = k1(k2(k3($ref ...))) over allOf / oneOf / anyOf / items / additionalProperties / properties / not / prefixItems, inner links in INLINE schemas, back to A or to a sibling that points back, bare or with neighbouring members; fixed family of 34 always, thorough: all chains of length <= 2 + 900 random up to length 3; + 30 quick random) + `list operations` on a sample + the witness documents of corpus/C12.jsonl + unwritable / non-directory / pre-existing / half-blocked output targets; observed: exit status, signal, time limit, stderr, listing (files with content hashes and directories) of the run's own directory - the target and everything next to it - before/after; non-trivial = every run; distinct by branch (ok/error/panic/signal x target)")
