"""C11 — generation is deterministic and independent of how the spec is written down (real CLI)."""
import copy, json, os, random, re
import vlib
from specgen import op_spec, resp_spec, ops_spec
from graphgen import graph_spec, position_spec

MODES = ["types", "client", "client-mod", "server-mod"]
FIXTURES = ["petstore.json", "union_serde.json", "basic_api.json", "content_types.json", "enum_deduplication.json", "event_stream.json", "implicit_union.json", "operation_filtering.json", "intersection_union.json", "Lizard.json"]


def permute(v, r):
    if isinstance(v, dict):
        ks = list(v.keys())
        r.shuffle(ks)
        return {k: permute(v[k], r) for k in ks}
    if isinstance(v, list):
        return [permute(x, r) for x in v]
    return v


def to_yaml(v, ind=0):
    try:
        import yaml
        return yaml.safe_dump(v, sort_keys=False, allow_unicode=True, default_flow_style=False)
    except ImportError:
        pass
    sp = "  " * ind
    if isinstance(v, dict):
        if not v:
            return "{}\n"
        out = ""
        for k, x in v.items():
            if isinstance(x, (dict, list)) and x:
                out += f"{sp}{json.dumps(str(k))}:\n{to_yaml(x, ind + 1)}"
            else:
                out += f"{sp}{json.dumps(str(k))}: {to_yaml(x, ind + 1).strip()}\n"
        return out
    if isinstance(v, list):
        if not v:
            return "[]\n"
        out = ""
        for x in v:
            if isinstance(x, (dict, list)) and x:
                body = to_yaml(x, ind + 1)
                out += f"{sp}- {body.lstrip()}"
            else:
                out += f"{sp}- {to_yaml(x, ind + 1).strip()}\n"
        return out
    return json.dumps(v) + "\n"


def strip_source(s):
    return re.sub(r"^//! Source: .*$", "//! Source:", s, flags=re.M)


def env_of(envspec, d):
    """envspec (cligrammar.fixed_envs / random_env) -> (environment additions, cwd, stdout file or None) for directory d"""
    env, cwd, out = {"RUST_BACKTRACE": "0"}, None, None
    for k, v in (envspec or {}).items():
        if isinstance(v, str):
            v = v.replace("<tmp>", d)
        if k == "?cwd":
            cwd = v
        elif k == "?stdout":
            out = v
        else:
            env[k] = v
    for sub in ("home1", "cwd1"):
        os.makedirs(os.path.join(d, sub), exist_ok=True)
    return env, cwd, out


def gen(ctx, d, spec_path, mode, tag, flags=(), envspec=None):
    out = os.path.join(d, "out_" + tag)
    if mode in ("types", "client"):
        args = ["generate", mode, "-i", spec_path, "-o", out + ".rs", "-q"]
    else:
        args = ["generate", mode, "-i", spec_path, "-o", out, "-q"]
    env, cwd, so_kind = env_of(envspec, d)
    rc, so, se, to = ctx.run_cli(args + list(flags), env=env, cwd=cwd, stdout_to=(out + ".stdout") if so_kind == "file" else None)
    files = {}
    if mode in ("types", "client"):
        if os.path.exists(out + ".rs"):
            files["file"] = strip_source(open(out + ".rs", encoding="utf-8").read())
    elif os.path.isdir(out):
        for f in sorted(os.listdir(out)):
            files[f] = strip_source(open(os.path.join(out, f), encoding="utf-8").read())
    return rc, files, se[-300:]


def list_ids(ctx, spec_path):
    """operation ids as `list operations` prints them"""
    rc, so, se, to = ctx.run_cli(["list", "operations", "-i", spec_path], env={"RUST_BACKTRACE": "0"})
    ids = []
    for l in so.splitlines():
        t = l.split()
        if len(t) >= 3 and t[1] in ("GET", "PUT", "POST", "DELETE", "OPTIONS", "HEAD", "PATCH", "TRACE"):
            ids.append(t[0])
    return ids if rc == 0 else []


def has_object_example(v):
    if isinstance(v, dict):
        for k, x in v.items():
            if k in ("example", "examples", "default", "const", "enum") and json.dumps(x).count("{") > 0:
                return True
            if has_object_example(x):
                return True
    elif isinstance(v, list):
        return any(has_object_example(x) for x in v)
    return False


def collision_spec():
    """distinct inline schemas (and inline enums) that want the same Rust name: which one keeps the bare
    name and which gets the numeric suffix must not depend on the process"""
    s = ops_spec([{"opid": "getAll", "method": "get", "path": "/all", "params": [], "body": None, "responses": [["200", [["application/json", "ref:All"]]]]}])
    sch = s["components"]["schemas"]
    allp = {}
    for i, n in enumerate(["Order", "Cart", "Bill", "Ship", "Acct", "Lane"]):
        sch[n] = {"type": "object", "properties": {"shipping_address": {"type": "object", "properties": {"street" + str(i): {"type": "string"}}},
                                                    "item_kind": {"type": "string", "enum": ["x" + str(i), "y" + str(i)]}}}
        sch[n + "Shipping"] = {"type": "object", "properties": {"address": {"type": "object", "properties": {"zip" + str(i): {"type": "integer"}}}}}
        sch[n + "Item"] = {"type": "object", "properties": {"kind": {"type": "string", "enum": ["p" + str(i), "q" + str(i)]}}}
        for m in (n, n + "Shipping", n + "Item"):
            allp[m.lower()] = {"$ref": "#/components/schemas/" + m}
    sch["All"] = {"type": "object", "properties": allp}
    return s


def ext_object_spec():
    """the same inline schema, carrying object-valued vendor extensions, in several places: its identity
    (deduplication, naming) must not depend on the key order of the free-form objects"""
    s = ops_spec([{"opid": "getZoo", "method": "get", "path": "/zoo", "params": [], "body": None, "responses": [["200", [["application/json", "ref:Zoo"]]]]}])
    sch = s["components"]["schemas"]
    def owner():
        return {"type": "object", "x-ui": {"widget": "card", "order": 1, "style": {"pad": 2, "border": "thin", "colour": "red"}, "hint": "h"},
                "x-meta": {"b": [1, {"k2": 1, "k1": 2, "k3": 3}], "a": None, "c": True},
                "properties": {"name": {"type": "string"}, "since": {"type": "integer"}}, "required": ["name"]}
    for n in ("Cat", "Dog", "Emu", "Fox"):
        sch[n] = {"type": "object", "properties": {"owner": owner(), "tag": {"type": "string"}}}
    sch["Zoo"] = {"type": "object", "properties": {n.lower(): {"$ref": "#/components/schemas/" + n} for n in ("Cat", "Dog", "Emu", "Fox")}}
    return s


def diff_lines(base, files):
    diffs = []
    for k in sorted(set(base) | set(files)):
        a, b = base.get(k, "").splitlines(), files.get(k, "").splitlines()
        hit = False
        for i, (x, y) in enumerate(zip(a, b)):
            if x != y:
                diffs.append((k, i, x, y)); hit = True; break
        if len(a) != len(b) and not hit:
            diffs.append((k, min(len(a), len(b)), "<len %d>" % len(a), "<len %d>" % len(b)))
    return diffs


# ---- K tie of the cache key (Props/C11 `canon_key_order_independent`): re-orderings of one schema through the REAL
# CanonicalSchema::from_schema -----------------------------------------------------------------------------------------
def _rand_value(r, d):
    k = r.random()
    if d <= 0 or k < 0.35:
        return r.choice([1, 0, -3, True, None, "x", "Grüße", "", 9007199254740993, 10, 5])   # no floats: the model's J carries integers only
    if k < 0.75:
        keys = r.sample(["burst", "rate", "a", "b", "z", "Z", "aa", "ä", "_", "10", "9", "limits", "x-y", ""], r.randint(1, 4))
        return {kk: _rand_value(r, d - 1) for kk in keys}
    return [_rand_value(r, d - 1) for _ in range(r.randint(0, 3))]


def _rand_schema(r, d):
    t = r.random()
    if d <= 0 or t < 0.3:
        s = {"type": r.choice(["string", "integer", "number", "boolean", ["string", "null"]])}
    elif t < 0.8:
        names = r.sample(["id", "name", "settings", "limits", "kind", "Tags", "a", "b", "title", "description", "default"], r.randint(1, 4))
        s = {"type": "object", "properties": {n: _rand_schema(r, d - 1) for n in names}}
        if r.random() < 0.6:
            s["required"] = r.sample(names, r.randint(1, len(names)))
        if r.random() < 0.3:
            s["additionalProperties"] = r.choice([False, True, _rand_schema(r, d - 1)])
    else:
        s = {"type": "array", "items": _rand_schema(r, d - 1)}
    for kw in ("default", "example", "const", "x-meta", "x-a"):
        if r.random() < 0.3:
            s[kw] = _rand_value(r, 3)
    if r.random() < 0.2:
        s["examples"] = [_rand_value(r, 2) for _ in range(r.randint(1, 3))]
    if r.random() < 0.15:
        s["enum"] = [_rand_value(r, 2) for _ in range(r.randint(1, 3))]
    for kw in ("description", "title"):
        if r.random() < 0.3:
            s[kw] = r.choice(["text", "other text"])
    return s


def shuffle_deep(r, v):
    if isinstance(v, dict):
        items = [(k, shuffle_deep(r, x)) for k, x in v.items()]
        r.shuffle(items)
        return dict(items)
    if isinstance(v, list):
        return [shuffle_deep(r, x) for x in v]
    return v


def canon_perm_cases(ctx):
    r = ctx.rng
    fixed = [
        {"type": "object", "properties": {"limits": {"type": "object", "default": {"burst": 10, "rate": 5}}}},
        {"type": "object", "x-meta": {"b": {"d": 1, "c": 2}, "a": 0}, "properties": {"a": {"type": "string"}, "b": {"type": "integer"}}, "required": ["b", "a"]},
        {"type": "string", "enum": ["x", "y"], "default": "x", "example": {"z": 1, "y": {"q": 1, "p": 2}}},
        {"type": "array", "items": {"type": "object", "properties": {"k": {"const": {"n": 1, "m": [{"b": 1, "a": 2}]}}}}},
    ]
    schemas = fixed + [_rand_schema(r, 3) for _ in range(300 if ctx.quick else 6000)]
    import featgen
    for _ in range(6 if ctx.quick else 60):
        try:
            schemas += list((featgen.rand_spec(r).get("components", {}).get("schemas", {}) or {}).values())
        except Exception:
            pass
    # primary data = ONE schema + a seed; the re-orderings are derived in `canon_prepare`, so that shrinking the schema keeps
    # all four documents re-orderings of each other
    return [{"op": "cache.canon_perm", "in": {"schema": s, "shuffle_seed": r.randint(0, 2 ** 31)}} for s in schemas]


def canon_prepare(case):
    d = case["in"]
    if case["op"] != "cache.canon_perm" or "schema" not in d:
        return case
    import random
    rr = random.Random(d.get("shuffle_seed", 0))
    assert isinstance(d["schema"], dict)
    return {"op": case["op"], "in": {"schemas": [d["schema"]] + [shuffle_deep(rr, d["schema"]) for _ in range(3)]}}


def run(ctx):
    import cligrammar as G
    ctx.translate(["hashsites"])
    proofs_ok, driver_ok = ctx.build_lean(["Oas3Model.Props.C11"])
    if proofs_ok:
        ctx.audit("Oas3Model.Props.C11")
        if not ctx.quick:
            ctx.leanchecker("Oas3Model.Props.C11")
    r = ctx.rng
    known = {e["class"]: e for e in ctx.load_known()}
    # K: the cache key of re-ordered schemas (real CanonicalSchema::from_schema vs Cache.canon, judged equal per case)
    if driver_ok and ctx.build_harness(["k_cache"]):
        kc = canon_perm_cases(ctx)
        ctx.prepare = canon_prepare
        for i in range(0, len(kc), 500):
            ctx.classify(ctx.evaluate(kc[i:i + 500]), tie="K")
            if ctx.violations:
                break
        ctx.prepare = None
    if ctx.build_cli():
        specs = []
        fx = FIXTURES if not ctx.quick else ["petstore.json"] + r.sample([f for f in FIXTURES if f != "petstore.json"], 3)
        for f in fx:
            p = os.path.join(vlib.REPO, "crates/oas3-gen/fixtures", f)
            if os.path.exists(p):
                specs.append((f, json.load(open(p))))
        specs.append(("gen_graph", graph_spec(["A", "B", "C"], [("A", "req", "B"), ("B", "arr", "C"), ("C", "oneOf", "A"), ("C", "oneOf", "B"), ("A", "map", "C")], ["A"])))
        specs.append(("gen_ops", ops_spec([{"opid": "listPets", "method": "get", "path": "/pets", "params": [{"name": "limit", "in": "query", "level": "op", "type": "integer"}, {"name": "X-Trace", "in": "header", "level": "path", "type": "string"}], "body": None, "responses": [["200", [["application/json", "ref:Pet"], ["text/plain", "string"]]], ["4XX", [["application/json", "ref:Err"]]], ["default", []]]},
                                             {"opid": "createPet", "method": "post", "path": "/pets", "params": [], "body": {"content": [["application/json", "ref:Pet"]], "required": True}, "responses": [["201", [["application/json", "ref:Pet"]]]]},
                                             {"opid": "showPet", "method": "get", "path": "/pets/{id}", "params": [{"name": "id", "in": "path", "level": "op", "type": "string"}], "body": None, "responses": [["200", [["application/json", "ref:Pet"]]]]},
                                             {"opid": "dropPet", "method": "delete", "path": "/pets/{id}", "params": [{"name": "id", "in": "path", "level": "op", "type": "string"}], "body": None, "responses": [["204", []]]},
                                             {"opid": "patchPet", "method": "patch", "path": "/pets/{id}", "params": [{"name": "id", "in": "path", "level": "op", "type": "string"}], "body": {"content": [["application/json", "ref:Pet"]], "required": True}, "responses": [["200", [["application/json", "ref:Pet"]]]]}])))
        ex = ops_spec([{"opid": "ex", "method": "get", "path": "/e", "params": [], "body": None, "responses": [["200", [["application/json", "ref:Pet"]]]]}])
        ex["components"]["schemas"]["Pet"]["properties"]["meta"] = {"type": "object", "example": {"b": 1, "a": {"z": 1, "y": 2}, "c": 3, "d": 4}}
        specs.append(("gen_example_object", ex))
        specs.append(("gen_name_collisions", collision_spec()))
        specs.append(("gen_ext_objects", ext_object_spec()))
        # data whose rendering could consult the process environment (clock / time zone / locale)
        specs.append(("gen_temporal_fixed", G.temporal_doc(None)))
        specs.append(("gen_temporal_random", G.temporal_doc(r, 5 if ctx.quick else 12)))
        specs.append(("gen_bigint", G.bigint_doc()))
        specs.append(("gen_values", G.place(G.enum_shape("plain-untyped", ["basic", 1.5, G.BIG, 1e21, "Grüße", 0.1, -0.0]), "property")))
        nperm = 2 if ctx.quick else 5
        fixed_envs = G.fixed_envs()
        envi = [0]
        def next_env(force_ref=False):
            """reference environment, or the next of: the fixed environments in rotation, then random ones"""
            if force_ref:
                return None
            envi[0] += 1
            return fixed_envs[envi[0] % len(fixed_envs)] if envi[0] % 3 else G.random_env(r)

        def judge(name, spec, mode, cfg, flags, tag, path, envspec, base_path, rc0, base, rc, files, err):
            ctx.evaluations += 1
            ctx.distinct.add((name, mode, cfg, tag))
            br = tag.rstrip("0123456789") + ("" if cfg == "default" else "/" + cfg.rstrip("0123456789"))
            ctx.branches[br] = ctx.branches.get(br, 0) + 1
            same = (rc == rc0) and files == base
            if len(ctx.samples) < 6 and (cfg != "default" or len(ctx.samples) < 2):
                ctx.samples.append({"spec": name, "mode": mode, "flags": list(flags), "variant": tag, "env": envspec, "identical": same, "files": {k: len(v) for k, v in files.items()}})
            if same:
                return
            diffs = diff_lines(base, files)
            only_example_docs = bool(diffs) and all(("Example" in x or "Example" in y or x.strip().startswith("///") and y.strip().startswith("///")) for _, _, x, y in diffs)
            case = {"op": "cli.determinism", "in": {"spec_name": name, "mode": mode, "flags": list(flags), "config": cfg, "variant": tag, "env": envspec, "spec_file": path}}
            # the key-order finding is only claimed where NOTHING but the key order differs (same flags, reference environment)
            if only_example_docs and envspec is None and (tag.startswith("perm") or tag.startswith("yaml")) and has_object_example(spec):
                ctx.known_seen.setdefault("KnownValueKeyOrder", {"case": case, "impl": {"diff": [list(map(str, d_)) for d_ in diffs[:3]]}, "why": "object-valued example rendered in input key order"})
                return
            if path.endswith(".yaml") and rc0 == 0 and rc != 0 and ("as u128" in err or "as i128" in err) and G.has_huge_int(spec):
                ctx.known_seen.setdefault("KnownYamlBigInt", {"case": case, "impl": {"rc": [rc0, rc], "stderr": err}, "why": "the YAML form of a document with an integer beyond u64 / below i64 is refused, the JSON form is accepted"})
                return
            keep = os.path.join(vlib.VERIF, "evidence", "replay", "C11_spec_" + os.path.basename(path))
            os.makedirs(os.path.dirname(keep), exist_ok=True)
            try:
                import shutil; shutil.copyfile(path, keep); shutil.copyfile(base_path, keep + ".base.json")
            except OSError:
                pass
            case["in"]["spec_file"] = keep
            what = "a re-serialisation" if (tag.startswith("perm") or path.endswith(".yaml")) else "another process run"
            ctx.violations.append({"case": case, "impl": {"rc": [rc0, rc], "stderr": err, "diff": [list(map(str, d_)) for d_ in diffs[:5]]},
                                   "why": f"output of `generate {mode} {' '.join(flags)}` differs between the reference run and {what} ({tag}; environment {json.dumps(envspec)})"})

        flag_specs = {"petstore.json", "gen_ops"} | ({n for n, _ in specs} if not ctx.quick else set(r.sample([n for n, _ in specs], 2)))
        for name, spec in specs:
            d = ctx.scratch(name)
            base_path = os.path.join(d, "spec.json")
            json.dump(spec, open(base_path, "w"))
            keyorder = has_object_example(spec)
            modes = MODES if not ctx.quick else r.sample(MODES, 2)
            if name.startswith("gen_temporal") and "types" not in modes:
                modes = ["types"] + modes[:1]
            for mode in modes:
                rc0, base, err0 = gen(ctx, d, base_path, mode, "base_" + mode)
                variants = [("rerun", base_path), ("rerunb", base_path)] + ([] if ctx.quick else [("rerunc", base_path), ("rerund", base_path)])
                if name.startswith("gen_temporal") or name == "gen_values":
                    # every fixed environment once
                    variants += [(f"renv{i}", base_path) for i in range(len(fixed_envs))]
                for i in range(nperm):
                    pp = os.path.join(d, f"perm{i}.json")
                    json.dump(permute(spec, r), open(pp, "w"), indent=r.choice([None, 1, 4]))
                    variants.append((f"perm{i}", pp))
                yp = os.path.join(d, "spec.yaml")
                open(yp, "w", encoding="utf-8").write(to_yaml(spec))
                variants.append(("yaml", yp))
                ypp = os.path.join(d, "perm.yaml")
                open(ypp, "w", encoding="utf-8").write(to_yaml(permute(spec, r)))
                variants.append(("yaml_perm", ypp))
                for tag, path in variants:
                    reser = tag.startswith("perm") or tag.startswith("yaml")
                    envspec = fixed_envs[int(tag[4:])] if tag.startswith("renv") else next_env(force_ref=(reser and keyorder) or tag == "rerun")
                    rc, files, err = gen(ctx, d, path, mode, tag + "_" + mode, (), envspec)
                    judge(name, spec, mode, "default", (), tag, path, envspec, base_path, rc0, base, rc, files, err)
                if len(ctx.violations) >= 3:
                    break
            # ---- run configurations: the same flags must give the same bytes in every process / environment, and so
            # must the same id SET written in another order
            if name in flag_specs and len(ctx.violations) < 3:
                ids = list_ids(ctx, base_path)
                pmodes = ["client", "client-mod", "server-mod"]
                fmodes = (pmodes + ["types"]) if not ctx.quick else [r.choice(pmodes)] + ([r.choice(["types", "client"])] if name == "petstore.json" else [])
                yp = os.path.join(d, "spec.yaml")
                for mode in fmodes:
                    for cfg, arglists in G.flag_configs(r, ids, not ctx.quick):
                        if cfg == "default":
                            continue
                        rc0, base, err0 = gen(ctx, d, base_path, mode, f"cfg_{cfg}_base_{mode}", arglists[0])
                        k = 0
                        for ai, fl in enumerate(arglists):
                            for rep in range(2 if (ai or len(arglists) > 1) else (2 if ctx.quick else 3)):
                                k += 1
                                envspec = next_env()
                                path = yp if (rep == 1 and ai == 0 and not keyorder) else base_path
                                tag = ("order" if ai else "rerun") + str(k) + ("yaml" if path == yp else "")
                                rc, files, err = gen(ctx, d, path, mode, f"cfg_{cfg}_{tag}_{mode}", fl, envspec)
                                judge(name, spec, mode, cfg, fl, tag, path, envspec, base_path, rc0, base, rc, files, err)
                        if len(ctx.violations) >= 3:
                            break
                    if len(ctx.violations) >= 3:
                        break
            if len(ctx.violations) >= 3:
                break
        ctx.ties["E-cli"] = ctx.evaluations
    return ctx.finish(
        checker_cmd="lake build Oas3Model.Props.C11 && #print axioms on every theorem" + ("" if ctx.quick else " && leanchecker"),
        trusted_base=vlib.TRUSTED_BASE + ["the YAML front end (serde_yaml) and the process hash seed are outside the model: covered only by the byte comparison of real CLI runs", "the hash-site table is produced by a regex-level scan (tools/extract.py: gen_hashsites)"],
        rule="the REAL binary on shipped fixtures (10 thorough / 4 quick, petstore always) + 8 generated specs (colliding inline names, object-valued vendor extensions in duplicated inline schemas, date / date-time / time / number / non-ASCII examples and defaults with offsets, fractional and leap seconds, values beyond i64) x modes (4 thorough / 2 quick) x {same file again 2-4 times (fresh process, fresh hash seed), 2-5 random key-order permutations at every object level with different indentation, YAML, key-permuted YAML}; EVERY comparison run but the first rerun executes in a different process environment than the reference run (TZ in {UTC0, XST-9, XWT5, Europe/Berlin, America/New_York, unset}, LANG / LC_ALL in {C, en_US.UTF-8, de_DE.UTF-8, unset}, COLUMNS, NO_COLOR / TERM / CLICOLOR_FORCE, HOME, working directory, stdout a pipe or a regular file; 4 fixed environments in rotation + random ones; the temporal documents see all 4 fixed ones); run configurations on petstore, the 5-operation document and 2 more (all thorough): --only with 2-4 ids taken from `list operations` and --exclude, each id set in 2-3 orders, --only + --all-schemas, --all-schemas, --all-headers, --enum-mode, --visibility, --enable-builders, --no-helpers, --odata-support (3 sampled quick / all thorough) in a per-operation mode, each compared with its own reference run over >= 2 further processes incl. the YAML form; output files compared byte for byte modulo the `Source:` line; non-trivial = every variant; distinct by (spec, mode, configuration, variant)",
        assumptions=["JSON object key order, whitespace and JSON-vs-YAML are the re-serialisations considered", "PyYAML (or the built-in emitter) writes a document equal to the JSON one",
                     "the environment is varied through the variables, working directory and stdout kind listed in the rule; the system time zone database / locale files present on the machine decide whether a TZ / LANG value has an effect at all"])
