"""C11 — generation is deterministic and independent of how the spec is written down (real CLI)."""
import copy, json, os, random, re
import vlib
from specgen import op_spec, resp_spec, ops_spec
from graphgen import graph_spec, position_spec

MODES = ["types", "client", "client-mod", "server-mod"]
FIXTURES = ["petstore.json", "union_serde.json", "basic_api.json", "content_types.json", "enum_deduplication.json", "event_stream.json", "implicit_union.json", "operation_filtering.json", "intersection_union.json", "Lizard.json"]


def permute(v, r):
    if isinstance(v, dict):
        ks = list(v.keys())
        r.shuffle(ks)
        return {k: permute(v[k], r) for k in ks}
    if isinstance(v, list):
        return [permute(x, r) for x in v]
    return v


def to_yaml(v, ind=0):
    try:
        import yaml
        return yaml.safe_dump(v, sort_keys=False, allow_unicode=True, default_flow_style=False)
    except ImportError:
        pass
    sp = "  " * ind
    if isinstance(v, dict):
        if not v:
            return "{}\n"
        out = ""
        for k, x in v.items():
            if isinstance(x, (dict, list)) and x:
                out += f"{sp}{json.dumps(str(k))}:\n{to_yaml(x, ind + 1)}"
            else:
                out += f"{sp}{json.dumps(str(k))}: {to_yaml(x, ind + 1).strip()}\n"
        return out
    if isinstance(v, list):
        if not v:
            return "[]\n"
        out = ""
        for x in v:
            if isinstance(x, (dict, list)) and x:
                body = to_yaml(x, ind + 1)
                out += f"{sp}- {body.lstrip()}"
            else:
                out += f"{sp}- {to_yaml(x, ind + 1).strip()}\n"
        return out
    return json.dumps(v) + "\n"


def strip_source(s):
    return re.sub(r"^//! Source: .*$", "//! Source:", s, flags=re.M)


def gen(ctx, d, spec_path, mode, tag):
    out = os.path.join(d, "out_" + tag)
    if mode in ("types", "client"):
        args = ["generate", mode, "-i", spec_path, "-o", out + ".rs", "-q"]
    else:
        args = ["generate", mode, "-i", spec_path, "-o", out, "-q"]
    rc, so, se, to = ctx.run_cli(args, env={"RUST_BACKTRACE": "0"})
    files = {}
    if mode in ("types", "client"):
        if os.path.exists(out + ".rs"):
            files["file"] = strip_source(open(out + ".rs", encoding="utf-8").read())
    elif os.path.isdir(out):
        for f in sorted(os.listdir(out)):
            files[f] = strip_source(open(os.path.join(out, f), encoding="utf-8").read())
    return rc, files, se[-300:]


def has_object_example(v):
    if isinstance(v, dict):
        for k, x in v.items():
            if k in ("example", "examples", "default", "const", "enum") and json.dumps(x).count("{") > 0:
                return True
            if has_object_example(x):
                return True
    elif isinstance(v, list):
        return any(has_object_example(x) for x in v)
    return False


def collision_spec():
    """distinct inline schemas (and inline enums) that want the same Rust name: which one keeps the bare
    name and which gets the numeric suffix must not depend on the process"""
    s = ops_spec([{"opid": "getAll", "method": "get", "path": "/all", "params": [], "body": None, "responses": [["200", [["application/json", "ref:All"]]]]}])
    sch = s["components"]["schemas"]
    allp = {}
    for i, n in enumerate(["Order", "Cart", "Bill", "Ship", "Acct", "Lane"]):
        sch[n] = {"type": "object", "properties": {"shipping_address": {"type": "object", "properties": {"street" + str(i): {"type": "string"}}},
                                                    "item_kind": {"type": "string", "enum": ["x" + str(i), "y" + str(i)]}}}
        sch[n + "Shipping"] = {"type": "object", "properties": {"address": {"type": "object", "properties": {"zip" + str(i): {"type": "integer"}}}}}
        sch[n + "Item"] = {"type": "object", "properties": {"kind": {"type": "string", "enum": ["p" + str(i), "q" + str(i)]}}}
        for m in (n, n + "Shipping", n + "Item"):
            allp[m.lower()] = {"$ref": "#/components/schemas/" + m}
    sch["All"] = {"type": "object", "properties": allp}
    return s


def ext_object_spec():
    """the same inline schema, carrying object-valued vendor extensions, in several places: its identity
    (deduplication, naming) must not depend on the key order of the free-form objects"""
    s = ops_spec([{"opid": "getZoo", "method": "get", "path": "/zoo", "params": [], "body": None, "responses": [["200", [["application/json", "ref:Zoo"]]]]}])
    sch = s["components"]["schemas"]
    def owner():
        return {"type": "object", "x-ui": {"widget": "card", "order": 1, "style": {"pad": 2, "border": "thin", "colour": "red"}, "hint": "h"},
                "x-meta": {"b": [1, {"k2": 1, "k1": 2, "k3": 3}], "a": None, "c": True},
                "properties": {"name": {"type": "string"}, "since": {"type": "integer"}}, "required": ["name"]}
    for n in ("Cat", "Dog", "Emu", "Fox"):
        sch[n] = {"type": "object", "properties": {"owner": owner(), "tag": {"type": "string"}}}
    sch["Zoo"] = {"type": "object", "properties": {n.lower(): {"$ref": "#/components/schemas/" + n} for n in ("Cat", "Dog", "Emu", "Fox")}}
    return s


def run(ctx):
    ctx.translate(["hashsites"])
    proofs_ok, driver_ok = ctx.build_lean(["Oas3Model.Props.C11"], driver=False)
    if proofs_ok:
        ctx.audit("Oas3Model.Props.C11")
        if not ctx.quick:
            ctx.leanchecker("Oas3Model.Props.C11")
    r = ctx.rng
    known = {e["class"]: e for e in ctx.load_known()}
    if ctx.build_cli():
        specs = []
        fx = FIXTURES if not ctx.quick else r.sample(FIXTURES, 4)
        for f in fx:
            p = os.path.join(vlib.REPO, "crates/oas3-gen/fixtures", f)
            if os.path.exists(p):
                specs.append((f, json.load(open(p))))
        specs.append(("gen_graph", graph_spec(["A", "B", "C"], [("A", "req", "B"), ("B", "arr", "C"), ("C", "oneOf", "A"), ("C", "oneOf", "B"), ("A", "map", "C")], ["A"])))
        specs.append(("gen_ops", ops_spec([{"opid": "listPets", "method": "get", "path": "/pets", "params": [{"name": "limit", "in": "query", "level": "op", "type": "integer"}, {"name": "X-Trace", "in": "header", "level": "path", "type": "string"}], "body": None, "responses": [["200", [["application/json", "ref:Pet"], ["text/plain", "string"]]], ["4XX", [["application/json", "ref:Err"]]], ["default", []]]},
                                             {"opid": "createPet", "method": "post", "path": "/pets", "params": [], "body": {"content": [["application/json", "ref:Pet"]], "required": True}, "responses": [["201", [["application/json", "ref:Pet"]]]]}])))
        ex = ops_spec([{"opid": "ex", "method": "get", "path": "/e", "params": [], "body": None, "responses": [["200", [["application/json", "ref:Pet"]]]]}])
        ex["components"]["schemas"]["Pet"]["properties"]["meta"] = {"type": "object", "example": {"b": 1, "a": {"z": 1, "y": 2}, "c": 3, "d": 4}}
        specs.append(("gen_example_object", ex))
        specs.append(("gen_name_collisions", collision_spec()))
        specs.append(("gen_ext_objects", ext_object_spec()))
        nperm = 2 if ctx.quick else 5
        for name, spec in specs:
            d = ctx.scratch(name)
            base_path = os.path.join(d, "spec.json")
            json.dump(spec, open(base_path, "w"))
            modes = MODES if not ctx.quick else r.sample(MODES, 2)
            for mode in modes:
                rc0, base, err0 = gen(ctx, d, base_path, mode, "base_" + mode)
                variants = [("rerun", base_path), ("rerunb", base_path)] + ([] if ctx.quick else [("rerunc", base_path), ("rerund", base_path)])
                for i in range(nperm):
                    pp = os.path.join(d, f"perm{i}.json")
                    json.dump(permute(spec, r), open(pp, "w"), indent=r.choice([None, 1, 4]))
                    variants.append((f"perm{i}", pp))
                yp = os.path.join(d, "spec.yaml")
                open(yp, "w", encoding="utf-8").write(to_yaml(spec))
                variants.append(("yaml", yp))
                ypp = os.path.join(d, "perm.yaml")
                open(ypp, "w", encoding="utf-8").write(to_yaml(permute(spec, r)))
                variants.append(("yaml_perm", ypp))
                for tag, path in variants:
                    rc, files, err = gen(ctx, d, path, mode, tag + "_" + mode)
                    ctx.evaluations += 1
                    ctx.distinct.add((name, mode, tag))
                    ctx.branches[tag.rstrip("0123456789")] = ctx.branches.get(tag.rstrip("0123456789"), 0) + 1
                    same = (rc == rc0) and files == base
                    if len(ctx.samples) < 4:
                        ctx.samples.append({"spec": name, "mode": mode, "variant": tag, "identical": same, "files": {k: len(v) for k, v in files.items()}})
                    if same:
                        continue
                    # which lines differ?
                    diffs = []
                    for k in sorted(set(base) | set(files)):
                        a, b = base.get(k, "").splitlines(), files.get(k, "").splitlines()
                        for i, (x, y) in enumerate(zip(a, b)):
                            if x != y:
                                diffs.append((k, i, x, y)); break
                        if len(a) != len(b) and not diffs:
                            diffs.append((k, min(len(a), len(b)), "<len>", "<len>"))
                    only_example_docs = bool(diffs) and all(("Example" in x or "Example" in y or x.strip().startswith("///") and y.strip().startswith("///")) for _, _, x, y in diffs)
                    case = {"op": "cli.determinism", "in": {"spec_name": name, "mode": mode, "variant": tag, "spec_file": path}}
                    if only_example_docs and not tag.startswith("rerun") and has_object_example(spec):
                        ctx.known_seen.setdefault("KnownValueKeyOrder", {"case": case, "impl": {"diff": [list(map(str, d_)) for d_ in diffs[:3]]}, "why": "object-valued example rendered in input key order"})
                    else:
                        keep = os.path.join(vlib.VERIF, "evidence", "replay", "C11_spec_" + os.path.basename(path))
                        os.makedirs(os.path.dirname(keep), exist_ok=True)
                        try:
                            import shutil; shutil.copyfile(path, keep); shutil.copyfile(base_path, keep + ".base.json")
                        except OSError:
                            pass
                        case["in"]["spec_file"] = keep
                        ctx.violations.append({"case": case, "impl": {"rc": [rc0, rc], "stderr": err, "diff": [list(map(str, d_)) for d_ in diffs[:5]]}, "why": f"output of `generate {mode}` differs between the base document and its {tag} re-serialisation"})
                if len(ctx.violations) >= 3:
                    break
            if len(ctx.violations) >= 3:
                break
        ctx.ties["E-cli"] = ctx.evaluations
    return ctx.finish(
        checker_cmd="lake build Oas3Model.Props.C11 && #print axioms on every theorem" + ("" if ctx.quick else " && leanchecker"),
        trusted_base=vlib.TRUSTED_BASE + ["the YAML front end (serde_yaml) and the process hash seed are outside the model: covered only by the byte comparison of real CLI runs", "the hash-site table is produced by a regex-level scan (tools/extract.py: gen_hashsites)"],
        rule="the REAL binary on shipped fixtures (10 thorough / 4 quick) + 5 generated specs (incl. colliding inline names, object-valued vendor extensions in duplicated inline schemas) x modes (4 thorough / 2 quick) x {same file again 2-4 times (fresh process, fresh hash seed), 2-5 random key-order permutations at every object level with different indentation, YAML, key-permuted YAML}; output files compared byte for byte modulo the `Source:` line; non-trivial = every variant; distinct by (spec, mode, variant)",
        assumptions=["JSON object key order, whitespace and JSON-vs-YAML are the re-serialisations considered", "PyYAML (or the built-in emitter) writes a document equal to the JSON one"])
