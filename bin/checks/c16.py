"""C16 — generated validation is sound (and complete) with respect to the declared constraints."""
import itertools, json, os, re
from decimal import Decimal
import vlib
from checks.c09 import vlib_corpus
from specgen import valid_spec, valid_sites_spec, valid_sites_list

INT_FORMATS = [None, "int32", "int64", "int8", "int16", "uint8", "uint32", "uint64"]
NUM_FORMATS = [None, "float", "double"]
STR_FORMATS = [None, "email", "uri", "url", "date", "date-time", "uuid", "password", "hostname", "int64", "double", "int32", "uint8", "datetime"]
PATTERNS = [None, "^a+$", "b", "^[0-9]{3}$", "(?=x)y"]
STRINGS = ["", "a", "aa", "aaa", "aaaa", "aab", "abc", "b", "123", "1234", "é", "éé", "ééé", "éééé", "日本", "😀😀", "😀😀😀", "😀😀😀😀",
           "a@b.co", "not-an-email", "http://x.y/z", "nope", "2020-01-02", "2020-01-02T03:04:05Z", "123e4567-e89b-12d3-a456-426614174000"]
RANGES = {"int8": (-128, 127), "int16": (-32768, 32767), "int32": (-2**31, 2**31 - 1), "int64": (-2**63, 2**63 - 1), None: (-2**63, 2**63 - 1),
          "uint8": (0, 255), "uint16": (0, 65535), "uint32": (0, 2**32 - 1), "uint64": (0, 2**64 - 1)}
NUMK = ("minimum", "maximum", "exclusiveMinimum", "exclusiveMaximum")


def dstr(d):
    s = format(d, "f")
    if "." in s:
        s = s.rstrip("0").rstrip(".")
    return s or "0"


def is_int(s):
    return re.fullmatch(r"-?\d+", s) is not None


def ty_of(c):
    t = c.get("ty")
    if isinstance(t, dict):                      # {"wrap": t, "any": bool}: anyOf | oneOf [<schema of type t>, {type: null}]
        return t.get("wrap")
    if isinstance(t, list):
        return next((x for x in t if x != "null"), None)
    return t


def num_vals(c):
    t, fmt = ty_of(c), c.get("format")
    floaty = fmt in ("float", "double") or (t == "number" and (fmt is None or fmt not in RANGES))
    out = {"0", "1", "-1"}
    for k in NUMK:
        b = c.get(k)
        if b is None:
            continue
        d = Decimal(b)
        if abs(d) > Decimal(10) ** 30 or (d != 0 and abs(d) < Decimal(10) ** -12):
            cand = [d, d * 2, d / 2] if floaty else []
        elif floaty:
            cand = [d, d - Decimal("0.5"), d + Decimal("0.5"), d - 1, d + 1]
        else:
            fl = d.to_integral_value(rounding="ROUND_FLOOR")
            cand = [fl - 1, fl, fl + 1, fl + 2]
        out |= {dstr(x) for x in cand}
    if not floaty:
        lo, hi = RANGES.get(fmt, RANGES[None])
        out |= {str(lo), str(hi)}
        out = {x for x in out if is_int(x)}
    else:
        out = {x if not is_int(x) else x + ".0" for x in out} | {"0.5"}
        out = {x for x in out if len(x.replace("-", "").replace(".", "")) <= 15}
    return [{"t": "num", "v": x} for x in sorted(out)]


def str_vals(c):
    lens = {0, 1}
    for k in ("minLength", "maxLength"):
        if c.get(k) is not None:
            lens |= {max(c[k] - 1, 0), c[k], c[k] + 1}
    out = set(STRINGS)
    for n in lens:
        out |= {"a" * n, "é" * n, "😀" * n, "b" * n, "1" * n}
    return [{"t": "str", "v": s} for s in sorted(out)]


def scalar_vals(c):
    t = ty_of(c)
    if t in ("integer", "number"):
        return num_vals(c)
    if t == "string":
        return str_vals(c)
    return []


def leaf_vals(s):
    """boundary values of a leaf member (min-1, min, max, max+1, exclusive bounds, multi-byte strings at the limits, ...)"""
    k = s["k"]
    out = [{"t": "absent"}]
    if k == "prim":
        return out + scalar_vals(s["c"])
    if k in ("arrP", "arrR"):
        c = s["c"]
        lens = {0, 1}
        for kk in ("minItems", "maxItems"):
            if c.get(kk) is not None:
                lens |= {max(c[kk] - 1, 0), c[kk], c[kk] + 1}
        if k == "arrR":
            return out      # lists of structs are probed through the nested judge, not as leaves
        iv = scalar_vals(s["items"])[:40]
        typical = next((v for v in iv if v["v"] in ("1", "a", "1.0")), iv[0] if iv else None)
        if typical is not None:
            for n in sorted(lens):
                out.append({"t": "list", "v": [typical] * n})
            okn = max(c.get("minItems") or 1, 1)
            for v in iv:
                out.append({"t": "list", "v": [v] * okn})
        else:
            out.append({"t": "list", "v": []})
        return out
    return out


# ------------------------------------------------------------------------------------------------
def prepare(case):
    if case["op"] == "valid.extract":
        i = dict(case["in"])
        i["vals"] = leaf_vals(i["s"])
        return {"op": case["op"], "in": i}
    if case["op"] == "valid.gen":
        d = case["in"]["desc"]
        spec = valid_spec(d)
        vals = {}
        for s in d["schemas"]:
            vals[s["name"]] = {f["name"]: leaf_vals(f["s"]) for f in s["fields"] if f["s"]["k"] != "ref"}
        for loc, nm in (("path", "OpRequestPath"), ("query", "OpRequestQuery"), ("header", "OpRequestHeader")):
            ps = [p for p in d.get("params", []) if p["in"] == loc]
            if ps:
                vals[nm] = {p["name"]: leaf_vals(p["s"]) for p in ps}
        return {"op": case["op"], "in": {"desc": d, "vals": vals, "spec": spec, "mode": "client-mod", "cfg": case["in"].get("cfg", {})}}
    if case["op"] == "valid.sites":
        d = case["in"]["desc"]
        sites = valid_sites_list(d)
        # every site is probed on the boundary values of ALL sites' variants of the member (a value between two
        # sites' limits tells the sites apart)
        pool = {}
        for st in sites:
            for f in st["fields"]:
                pool.setdefault(f["name"], [])
                for v in leaf_vals(f["s"]):
                    if v not in pool[f["name"]]:
                        pool[f["name"]].append(v)
        vals = [{f["name"]: pool[f["name"]] for f in st["fields"]} for st in sites]
        i = {"desc": d, "spec": valid_sites_spec(d), "mode": d.get("mode", "client-mod"), "cfg": {}, "sites": sites, "vals": vals}
        if case.get("_want_code"):
            i["want"] = ["code"]
        return {"op": case["op"], "in": i}
    return case


def cons(ty, **kw):
    c = {"ty": ty}
    c.update({k: v for k, v in kw.items() if v is not None})
    return c


NUM_BOUND_SETS_QUICK = [
    {"minimum": "1", "maximum": "5"}, {"exclusiveMinimum": "0", "exclusiveMaximum": "10"}, {"minimum": "-3"}, {"maximum": "100"},
    {"minimum": "1", "exclusiveMaximum": "2.5"}, {"minimum": "1.5"}, {"maximum": "1000"}, {"minimum": "0", "maximum": "255"},
    {"maximum": "-200"}, {"exclusiveMaximum": "2147483648"}, {"minimum": "-1", "maximum": "5"}, {"maximum": "1e-7"}, {"maximum": "1e300"},
    {"minimum": "5.0"}, {"exclusiveMinimum": "-129"}, {"minimum": "128"}, {"maximum": "18446744073709551615"}, {"minimum": "0.00001", "maximum": "1.5e300"},
    {"minimum": "1234567", "maximum": "-1234567"}, {"maximum": "9223372036854775807"}, {"minimum": "-9223372036854775808"}, {"maximum": "9223372036854775808"},
]


def k_cases(ctx):
    r = ctx.rng
    out = []
    mk = lambda s, req, param: {"op": "valid.extract", "in": {"s": s, "req": req, "param": param}}
    # numeric: every subset of the four bounds x formats x type sets
    pools = {"minimum": ["1", "-3", "0"], "maximum": ["5", "100", "-200"], "exclusiveMinimum": ["0", "-129"], "exclusiveMaximum": ["10", "2.5"]}
    for ty in ("integer", "number", ["integer", "null"], ["number", "null"]):
        fmts = (INT_FORMATS if "integer" in ty else NUM_FORMATS) + (["float", "int32"] if not ctx.quick else [])
        for fmt in fmts:
            for mask in range(16):
                ks = [k for i, k in enumerate(NUMK) if mask >> i & 1]
                variants = [dict(zip(ks, vs)) for vs in itertools.product(*[pools[k] for k in ks])]
                if ctx.quick and len(variants) > 2:
                    variants = r.sample(variants, 2)
                for b in variants:
                    out.append(mk({"k": "prim", "c": cons(ty, format=fmt, **b)}, r.random() < 0.5, r.random() < 0.3))
            for b in NUM_BOUND_SETS_QUICK:
                out.append(mk({"k": "prim", "c": cons(ty, format=fmt, **b)}, r.random() < 0.5, r.random() < 0.3))
    # strings
    for ty in ("string", ["string", "null"]):
        for fmt in STR_FORMATS:
            for mn in (None, 0, 2):
                for mx in (None, 3):
                    for pat in PATTERNS:
                        for req in (True, False):
                            for param in (False, True):
                                out.append(mk({"k": "prim", "c": cons(ty, format=fmt, minLength=mn, maxLength=mx, pattern=pat)}, req, param))
    out.append(mk({"k": "prim", "c": cons("boolean")}, True, False))
    # arrays
    items = [cons("string"), cons("integer", maximum="5"), cons("string", maxLength=2), cons("string", pattern="^a+$"), cons("number", minimum="0.5"), cons("string", format="email"), cons("integer")]
    for ty in ("array", ["array", "null"]):
        for mn in (None, 1, 2):
            for mx in (None, 2):
                for it in items:
                    for req in (True, False):
                        out.append(mk({"k": "arrP", "c": cons(ty, minItems=mn, maxItems=mx), "items": it}, req, False))
                out.append(mk({"k": "arrR", "c": cons(ty, minItems=mn, maxItems=mx), "to": "Inner"}, True, False))
    return out


SCHEMA_NAMES = ["Body", "Deep", "Foo", "FooBar", "Inner", "Node", "Zed"]
FIELD_NAMES = ["a_b", "bar_baz", "baz", "count", "items", "kind_of", "name", "tag", "val", "x1"]


def rand_cons_scalar(r, wild=0.15):
    kind = r.choice(["int", "int", "num", "str", "str", "str", "bool"])
    if kind == "bool":
        return cons("boolean")
    if kind in ("int", "num"):
        base = "integer" if kind == "int" else "number"
        ty = [base, "null"] if r.random() < 0.12 else base
        if r.random() < 0.08:
            ty = {"wrap": base, "any": r.random() < 0.7}      # pydantic-style optional: the keywords sit inside the variant (F16-9)
        fmt = r.choice(INT_FORMATS[:3] + [None] * 3 if kind == "int" else NUM_FORMATS + [None])
        if r.random() < wild:
            fmt = r.choice(INT_FORMATS if kind == "int" else NUM_FORMATS)
        if r.random() < wild:
            b = dict(r.choice(NUM_BOUND_SETS_QUICK))
            # an f32 member (`format: float`) takes bounds and boundary values that are exact in single precision only: the
            # semantics compares exact decimals, the compiled validator f32 values (2147483647.5 IS 2147483648 there)
            if fmt == "float" and any(abs(float(v)) > 65536 or float(v) * 4 != int(float(v) * 4) for v in b.values()):
                b = {"minimum": "1", "maximum": "5"}
        else:
            b = {}
            lo = r.randint(-5, 5)
            if r.random() < 0.5:
                b[r.choice(["minimum", "exclusiveMinimum"])] = str(lo) if kind == "int" or r.random() < 0.5 else str(lo) + ".5"
            if r.random() < 0.5:
                b[r.choice(["maximum", "exclusiveMaximum"])] = str(lo + r.randint(0, 20)) if kind == "int" or r.random() < 0.5 else str(lo + r.randint(0, 20)) + ".25"
        return cons(ty, format=fmt, **b)
    ty = ["string", "null"] if r.random() < 0.12 else "string"
    if r.random() < 0.08:
        ty = {"wrap": "string", "any": r.random() < 0.7}
    fmt = r.choice([None] * 5 + ["email", "uri", "password"] + (["date", "uuid", "date-time"] if r.random() < wild * 2 else []))
    mn = r.choice([None, None, 0, 1, 2])
    mx = r.choice([None, None, 3, 5])
    if mn is not None and mx is not None and mn > mx and r.random() < 0.8:
        mx = mn + 1
    pat = r.choice([None] * 4 + PATTERNS[1:4] + ([PATTERNS[4]] if r.random() < wild else []))
    return cons(ty, format=fmt, minLength=mn, maxLength=mx, pattern=pat)


def rand_fs(r, targets, leaf_only=False):
    x = r.random()
    if targets and not leaf_only and x < 0.25:
        return {"k": "ref", "to": r.choice(targets)}
    if targets and not leaf_only and x < 0.38:
        return {"k": "arrR", "c": cons(["array", "null"] if r.random() < 0.1 else "array", minItems=r.choice([None, None, 1]), maxItems=r.choice([None, None, 3])), "to": r.choice(targets)}
    if x < 0.55:
        it = rand_cons_scalar(r) if r.random() < 0.5 else cons(r.choice(["string", "integer"]))
        return {"k": "arrP", "c": cons(["array", "null"] if r.random() < 0.1 else "array", minItems=r.choice([None, None, 1, 2]), maxItems=r.choice([None, None, 2, 4])), "items": it}
    return {"k": "prim", "c": rand_cons_scalar(r)}


def rand_desc(r):
    n = r.randint(1, 4)
    names = sorted(r.sample(SCHEMA_NAMES, n))
    root = r.choice(names)
    order = [root] + [x for x in names if x != root]
    r.shuffle(order[1:])
    schemas = {}
    for i, nm in enumerate(order):
        # every schema after the first is referenced by an earlier one (reachability); refs may also go back (cycles)
        fields = {}
        for fn in r.sample(FIELD_NAMES, r.randint(1, 4)):
            tg = [x for x in order if x != nm or True]
            s = rand_fs(r, tg)
            req = r.random() < 0.5
            if s["k"] == "ref":
                # a required reference on a cycle gives an uninhabited type; keep cyclic / self refs optional
                if order.index(s["to"]) <= i:
                    req = False
            fields[fn] = {"name": fn, "req": req, "s": s}
        schemas[nm] = fields
    for i in range(1, len(order)):
        src = schemas[r.choice(order[:i])]
        fn = r.choice([f for f in FIELD_NAMES if f not in src] or ["zz_link%d" % i])
        s = {"k": "ref", "to": order[i]} if r.random() < 0.6 else {"k": "arrR", "c": cons("array", maxItems=r.choice([None, 2])), "to": order[i]}
        src[fn] = {"name": fn, "req": r.random() < 0.5, "s": s}
    desc = {"schemas": [{"name": nm, "fields": [schemas[nm][f] for f in sorted(schemas[nm])]} for nm in names], "aliases": [], "params": [], "body": root, "resp": None, "echo": None}
    x = r.random()
    if x < 0.12:
        desc["aliases"] = [{"name": "Items", "to": root}]
        desc["body"] = "Items"
    elif x < 0.2:
        desc["body"] = None
        desc["resp"] = root
    y = r.random()
    if y < 0.25 and desc["resp"] is None:
        desc["resp"] = r.choice(names)
    elif y < 0.4:
        desc["echo"] = r.choice(names)
    pnames = r.sample(["id", "q", "limit", "x_tag", "name"], r.randint(0, 3))
    for pn in pnames:
        loc = r.choice(["path", "query", "query", "header"])
        s = rand_fs(r, [], leaf_only=True)
        if loc == "path" and s["k"] != "prim":
            s = {"k": "prim", "c": rand_cons_scalar(r)}
        if s["k"] == "arrP" and isinstance(s["items"].get("ty"), list):
            s["items"]["ty"] = ty_of(s["items"])     # Vec<Option<_>> header/query parameters do not compile (not C16's business)
        if s["k"] == "prim" and ty_of(s["c"]) == "boolean":
            s = {"k": "prim", "c": cons("string", maxLength=4)}
        desc["params"].append({"name": pn, "in": loc, "req": loc == "path" or r.random() < 0.5, "s": s})
    return desc


def e_cases(ctx):
    r = ctx.rng
    out = []
    n = 600 if ctx.quick else 5000
    tries = 0
    while len(out) < n and tries < n * 5:
        tries += 1
        d = rand_desc(r)
        try:
            valid_spec(d)
        except ValueError:
            continue
        out.append({"op": "valid.gen", "in": {"desc": d}})
    return out


# ------------------------------------------------------------------------------------------------
# site dimension: same-shaped inline objects that differ only in validation keywords
SITE_MEMBERS = {
    # member name -> (leaf description without the varied keywords, {keyword: pool of values})
    "days": ({"k": "prim", "c": {"ty": "integer"}}, {"minimum": ["1", "0", "-3"], "maximum": ["365", "7", "100"], "exclusiveMinimum": ["0", "10"], "exclusiveMaximum": ["1000", "31"]}),
    "level": ({"k": "prim", "c": {"ty": "integer", "format": "int32"}}, {"minimum": ["1", "2"], "maximum": ["9", "5"], "exclusiveMaximum": ["10", "6"]}),
    "label": ({"k": "prim", "c": {"ty": "string"}}, {"minLength": [0, 2, 3], "maxLength": [32, 8, 3], "pattern": ["^a+$", "b", "^[0-9]{3}$"]}),
    "note": ({"k": "prim", "c": {"ty": ["string", "null"]}}, {"minLength": [1, 2], "maxLength": [5, 3], "pattern": ["^a+$", "b"]}),
    "ratio": ({"k": "prim", "c": {"ty": "number"}}, {"minimum": ["0.5", "1.5"], "maximum": ["2.5", "100.25"], "exclusiveMinimum": ["0", "0.25"], "exclusiveMaximum": ["10", "2.5"]}),
    "tags": ({"k": "arrP", "c": {"ty": "array"}, "items": {"ty": "string"}}, {"minItems": [1, 2], "maxItems": [4, 2]}),
    "nums": ({"k": "arrP", "c": {"ty": "array"}, "items": {"ty": "integer"}}, {"minItems": [1, 3], "maxItems": [5, 3]}),
}
SITE_KEYWORDS = ["minLength", "maxLength", "pattern", "minimum", "maximum", "exclusiveMinimum", "exclusiveMaximum", "minItems", "maxItems"]
SITE_PLACES = {
    "siblings": [("A", "p", "plain"), ("A", "q", "plain"), ("A", "r", "plain")],
    "holders": [("A", "p", "plain"), ("B", "p", "plain"), ("C", "p", "plain")],
    "items": [("A", "p", "array"), ("A", "q", "array"), ("A", "r", "plain")],
    "mixed": [("A", "p", "plain"), ("B", "q", "array"), ("B", "r", "plain")],
}


def site_leaf(name, kws):
    import copy
    base, _ = SITE_MEMBERS[name]
    s = copy.deepcopy(base)
    for k, v in kws.items():
        if v is not None:
            s["c"][k] = v
    return s


def sites_desc(r, keywords, n=None, reqresp=False, what="limits"):
    """2-3 inline objects of one shape; the members are the same, the sites differ only in the value (or the presence)
    of the given validation keyword(s) — `what` = ann: only in an annotation (nothing may change), same: identical."""
    # members that can carry the varied keywords, plus up to two bystanders with fixed constraints
    carriers = []
    for kw in keywords:
        c = r.choice([m for m, (_, pools) in SITE_MEMBERS.items() if kw in pools])
        carriers.append((c, kw))
    names = {c for c, _ in carriers}
    for m in r.sample(sorted(SITE_MEMBERS), r.randint(0, 2)):
        names.add(m)
    names = sorted(names)
    fixed = {}
    for m in names:
        pools = SITE_MEMBERS[m][1]
        fixed[m] = {k: r.choice(vs) for k, vs in pools.items() if r.random() < 0.4 and (m, k) not in carriers}
    n = n or r.choice([2, 2, 3])
    variants = []
    for i in range(n):
        kws = {m: dict(fixed[m]) for m in names}
        if what == "limits":
            for c, kw in carriers:
                pool = SITE_MEMBERS[c][1][kw] + [None]           # present with different values, or absent at one site
                kws[c][kw] = pool[(i + r.randrange(len(pool))) % len(pool)] if i else pool[0]
        variants.append(kws)
    if what == "limits":
        # make sure at least two sites really differ
        c, kw = carriers[0]
        if variants[0][c].get(kw) == variants[1][c].get(kw):
            pool = SITE_MEMBERS[c][1][kw]
            variants[1][c][kw] = next(v for v in pool if v != variants[0][c].get(kw))
    req = {m: r.random() < 0.5 for m in names}
    order = list(range(n))
    r.shuffle(order)
    places = (SITE_PLACES[r.choice(sorted(SITE_PLACES))] if not reqresp else [("A", "p", "plain"), ("B", "p", "plain"), ("B", "q", "array")])[:n]
    comps = {}
    for (cn, prop, wrap), vi in zip(places, order):
        f = {"name": prop, "wrap": wrap, "req": r.random() < 0.4,
             "fields": [{"name": m, "req": req[m], "s": site_leaf(m, variants[vi][m])} for m in names]}
        if what == "ann":
            f["ann"] = {"description": ["first", "second", "third"][vi]}
        comps.setdefault(cn, []).append(f)
    usage = {cn: r.choice(["req", "both", "both"]) for cn in comps}
    if reqresp:
        usage = {"A": "req", "B": "resp"} if r.random() < 0.5 else {"A": "resp", "B": "req"}
    return {"comps": [{"name": cn, "usage": usage[cn], "fields": fs} for cn, fs in sorted(comps.items())]}


def site_cases(ctx):
    r = ctx.rng
    out = []
    reps = 10 if ctx.quick else 60
    add = lambda d: out.append({"op": "valid.sites", "in": {"desc": d}})
    for kw in SITE_KEYWORDS:                                         # every keyword, one at a time
        for i in range(reps):
            add(sites_desc(r, [kw], reqresp=(i % 3 == 2)))
    import itertools as it
    pairs = list(it.combinations(SITE_KEYWORDS, 2))                  # … and in pairs
    for a, b in pairs:
        for i in range(2 if ctx.quick else 8):
            add(sites_desc(r, [a, b], reqresp=r.random() < 0.25))
    for i in range(30 if ctx.quick else 200):
        add(sites_desc(r, [r.choice(SITE_KEYWORDS)], what=r.choice(["ann", "same"]), reqresp=r.random() < 0.25))
    return out


def run(ctx):
    proofs_ok, driver_ok = ctx.build_lean(["Oas3Model.Props.C16"])
    if proofs_ok:
        ctx.audit("Oas3Model.Props.C16")
        if not ctx.quick:
            ctx.leanchecker("Oas3Model.Props.C16")
    ctx.prepare = prepare
    if driver_ok and ctx.build_harness(["k_valid"]):
        allc = vlib_corpus(ctx) + k_cases(ctx) + e_cases(ctx) + site_cases(ctx)
        B = 400
        for i in range(0, len(allc), B):
            ctx.classify(ctx.evaluate(allc[i:i + B], tie="K+E"), tie="K+E")
            if len(ctx.violations) >= 3:
                break
        if not ctx.quick and not ctx.violations:
            try:
                from checks import c16_arena
                c16_arena.run_arena(ctx)
            except Exception as e:          # the arena is validation of Sem, its failure to run is reported, never hidden
                import traceback
                ctx.breaks.append(vlib.Break("harness", "arena", traceback.format_exc()))
    return ctx.finish(
        checker_cmd="lake build Oas3Model.Props.C16 && #print axioms on every theorem" + ("" if ctx.quick else " && leanchecker"),
        trusted_base=vlib.TRUSTED_BASE + [
            "Sem/Validator (VAttr.accepts): meaning of validator 0.20 attributes (length = Unicode scalar count / element count, range inclusive/exclusive on the typed literal, None passes, nested recurses through Option/Vec/Box) — exercised by the arena in the thorough tier",
            "regex / email / url engines are parameters of the model (Rx); their verdicts on the strings of each case come from the real regex / validator crates",
            "restricted JSON-Schema semantics `satisfies` (minLength/maxLength in Unicode scalar values, pattern = unanchored search, numeric bounds exact) is the specification side, written in Lean (no jsonschema implementation is available offline)",
            "literal text (digit grouping, suffixes) is compared with the emitted text on every case but only its structured form (Lit) is reasoned about",
            "syn-based extraction of #[validate(..)] attributes, regex statics and the client method's first statement (harness/src/k_valid.rs)"],
        rule="K: bounded-exhaustive constraint combinations (every subset of min/max/exclusive bounds x 8 integer + 3 float formats x nullable, strings: format x minLength x maxLength x pattern x required x param position, arrays: minItems x maxItems x item schemas) through the real extract_all_validation; E: random specs of the fragment (1-4 object schemas with scalar/array/ref/array-of-ref members incl. recursive ones, parameters in path/query/header, body as struct or array alias, response-only and bidirectional types) through the whole generator in-process; E on sites (valid.sites): documents with 2-3 same-shaped inline objects (sibling properties, different holders, array items, request vs response holders) that differ in one of the nine validation keywords (each keyword, and every pair), only in an annotation, or not at all; the validators of the struct each site resolves to are judged against THAT site's own constraints on the boundary values of all variants; every leaf is judged on its boundary values (min-1, min, max, max+1, exclusive bounds, type MIN/MAX, multi-byte strings at the length limits, pattern (non)matches, lists at minItems/maxItems); non-trivial = at least one attribute predicted; distinct by input hash",
        assumptions=["schemas and members are given in BTreeMap order; names are ASCII identifiers that need no sanitising", "decimal bounds have at most 15 significant digits (f64 shortest representation = the decimal itself)"])
