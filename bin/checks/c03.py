"""C03 — generated client emits exactly the HTTP request the operation describes."""
import re, itertools, json
import vlib
from checks.c09 import vlib_corpus
from specgen import op_spec

PARTS = ["a", "{p}", "{", "}", "-", "{q}"]
CHARS = ["a", "Z", "0", "-", ".", "_", "~", " ", "/", "%", "?", "#", "\\", "{", "}", "\"", "<", "\t", "\n", "\r", "é", "中", "😀", "+", "&", "=", ":", ";", "@", "\x7f", "\x00"]
METHODS = ["get", "post", "put", "delete", "patch", "head", "options", "trace"]
PNAMES = ["id", "petId", "pet-id", "user_id", "X-Req-Id", "q", "type", "page size", "a.b", "id2", "Accept-Language"]
BODY_CT = ["application/json", "application/x-www-form-urlencoded", "text/plain", "application/octet-stream", "application/xml", "multipart/form-data", "application/vnd.x+json"]


# query / header parameter names that are NOT snake_case identifiers (the serde rename / the header constant
# carries the original name) next to names that already are
QNAMES = ["tagIds", "filter-labels", "sort.by", "pageSize", "X-Trace", "type", "tag", "ids", "q", "user_id", "Sort", "a.b-c", "page size", "self"]
HNAMES = ["X-Trace", "X-Scopes", "x-labels", "X-Ids", "traceId", "accept-language", "If-Match", "X_Under", "X-Rate.Limit", "type", "X-9"]
ITEMS = ["string", "string", "integer", "enum"]
DEFAULTS = {"string": "z", "integer": 3, "boolean": True, "enum": "a"}


def item_schema(t):
    return {"type": "string", "enum": ["a", "b"]} if t == "enum" else {"type": t}


def param_schema3(p):
    t = p.get("type", "string")
    if t == "array":
        sch = {"type": "array", "items": item_schema(p.get("items") or "string")}
    elif t == "intarray":
        sch = {"type": "array", "items": {"type": "integer"}}
    else:
        sch = item_schema(t)
    if p.get("default") is not None:
        sch["default"] = p["default"]
    return sch


def op_spec3(d):
    """specgen.op_spec with the parameter attributes of this check (`items`, `default`)."""
    s = op_spec(dict(d, params=[]))
    item = s["paths"][d["path"]]
    op = item[d["method"]]
    for p in d.get("params", []):
        o = {"name": p["name"], "in": p["in"], "schema": param_schema3(p)}
        if p.get("type") == "noschema":
            # described by `content` instead of `schema`: typed `Option<String>` by the generator (finding F03-10, repaired)
            del o["schema"]
            o["content"] = {"application/json": {"schema": {"type": "object"}}}
        if p.get("required") or p["in"] == "path":
            o["required"] = True
        for k in ("style", "explode"):
            if p.get(k) is not None:
                o[k] = p[k]
        (item if p.get("level") == "path" else op).setdefault("parameters", []).append(o)
    return s


def prepare(case):
    if case["op"] != "client.method":
        return case
    d = case["in"]["op"]
    return {"op": case["op"], "in": {"op": d, "spec": op_spec3(d), "mode": "client-mod", "cfg": {}}}


def wire_param(r, loc, name=None, level=None):
    """one query / header parameter over the whole layout grammar"""
    p = {"name": name or r.choice(QNAMES if loc == "query" else HNAMES), "in": loc, "level": level or r.choice(["op", "op", "path"]),
         "type": r.choice(["array", "array", "array", "string", "integer", "enum", "boolean"]), "required": r.random() < 0.4}
    if p["type"] == "array":
        p["items"] = r.choice(ITEMS)
        if loc == "query":
            p["style"] = r.choice([None, "form", "spaceDelimited", "pipeDelimited"])
            p["explode"] = r.choice([None, True, False, False])
    elif r.random() < 0.12:
        p["default"] = DEFAULTS[p["type"]]
    elif loc == "query" and r.random() < 0.08:
        p["type"] = "noschema"
    return p


def wire_op(r):
    """operation whose parameters are query / header parameters only (plus what the template needs)"""
    path = r.choice(["/n", "/n/{id}", "/v1/notes"])
    params = [{"name": "id", "in": "path", "level": "op", "type": "string"}] if "{id}" in path else []
    for _ in range(r.randint(1, 4)):
        p = wire_param(r, r.choice(["query", "query", "header"]))
        if not any(q["name"] == p["name"] and q["in"] == p["in"] for q in params):
            params.append(p)
    body = None
    if r.random() < 0.2:
        body = {"content": [[r.choice(BODY_CT[:4]), "ref:Pet"]], "required": r.random() < 0.5}
    return {"op": "client.method", "in": {"op": {"method": r.choice(METHODS[:5]), "path": path, "params": params, "body": body}}}


def wire_grid():
    """every array layout once under a name that needs a rename: style x explode x required x level x item type"""
    out = []
    names = ["tagIds", "filter-labels", "sort.by", "X-Trace", "tags"]
    i = 0
    for style in (None, "form", "spaceDelimited", "pipeDelimited"):
        for explode in (None, True, False):
            for required in (False, True):
                for level in ("op", "path"):
                    items = ITEMS[1:][i % 3] if (i // 3) % 4 == 3 else "string"
                    p = {"name": names[i % len(names)], "in": "query", "level": level, "type": "array", "items": items, "required": required}
                    if style is not None:
                        p["style"] = style
                    if explode is not None:
                        p["explode"] = explode
                    i += 1
                    out.append({"op": "client.method", "in": {"op": {"method": "get", "path": "/n", "params": [p], "body": None}}})
    for name in HNAMES:
        for ty, items in (("string", None), ("integer", None), ("enum", None), ("boolean", None), ("array", "string"), ("array", "integer"), ("array", "enum")):
            for required in (False, True):
                p = {"name": name, "in": "header", "level": "path" if (len(out) % 3 == 0) else "op", "type": ty, "required": required}
                if items:
                    p["items"] = items
                out.append({"op": "client.method", "in": {"op": {"method": "get", "path": "/n", "params": [p], "body": None}}})
    for name in QNAMES:
        for ty in ("string", "integer", "enum", "boolean"):
            p = {"name": name, "in": "query", "level": "path" if (len(out) % 3 == 0) else "op", "type": ty, "required": len(out) % 2 == 0}
            out.append({"op": "client.method", "in": {"op": {"method": "get", "path": "/n", "params": [p], "body": None}}})
    return out


def rand_op(r):
    nseg = r.randint(0, 4)
    segs, tnames = [], []
    for _ in range(nseg):
        k = r.random()
        if k < 0.4:
            segs.append(r.choice(["pets", "v1", "a-b", "x.y", "items"]))
        elif k < 0.75:
            n = r.choice(PNAMES[:6]); tnames.append(n); segs.append("{" + n + "}")
        else:
            n1, n2 = r.choice(PNAMES[:6]), r.choice(PNAMES[:6])
            tnames += [n1, n2]
            segs.append(r.choice(["x-{%s}", "{%s}.json", "{%s}:{%s}", "a{%s}b{%s}c"]).replace("%s", n1, 1).replace("%s", n2, 1))
            if "%s" in segs[-1]:
                segs[-1] = segs[-1].replace("%s", n2)
    path = "/" + "/".join(segs)
    if segs and r.random() < 0.06:
        path += "/" if r.random() < 0.7 else "//x"          # empty segments: trailing slash, `//` (finding F03-9)
    if r.random() < 0.05:
        path += r.choice(["?x=1", "/{", "/}", "/{}", "/{a{b}}"])
    params = []
    for n in dict.fromkeys(tnames):
        if r.random() < 0.85:
            params.append({"name": n, "in": "path", "level": r.choice(["op", "path"]), "type": r.choice(["string", "integer"])})
    for _ in range(r.randint(0, 3)):
        loc = r.choice(["query", "query", "header"])
        p = {"name": r.choice(PNAMES), "in": loc, "level": r.choice(["op", "op", "path"]), "type": r.choice(["string", "integer", "boolean", "array", "enum"]), "required": r.random() < 0.4}
        if p["type"] == "array" and loc == "query":
            p["style"] = r.choice([None, "form", "spaceDelimited", "pipeDelimited"])
            p["explode"] = r.choice([None, True, False])
        if not any(q["name"] == p["name"] and q["in"] == p["in"] and q["level"] == p["level"] for q in params):
            params.append(p)
    body = None
    if r.random() < 0.5:
        cts = r.sample(BODY_CT, r.randint(1, 2))
        body = {"content": [[ct, r.choice(["ref:Pet", "ref:Pet", "string", None])] for ct in cts], "required": r.random() < 0.5}
    m = r.choice(METHODS[:6]) if r.random() < 0.93 else r.choice(METHODS[6:])
    return {"op": "client.method", "in": {"op": {"method": m, "path": path, "params": params, "body": body}}}


def cases(ctx):
    r = ctx.rng
    out = []
    # K: templates of <= 4 parts over the quantifier's alphabet, exhaustive
    for k in range(0, 5 if not ctx.quick else 4):
        for t in itertools.product(PARTS, repeat=k):
            if k == 4 and re.search(r"\{-+\}", "".join(t)):
                # the parameter NAMED `-` inside a mixed segment: its field is `_` and `format!("{}y", request.path._)` is
                # not an expression syn can read (names without an identifier character: C09/C12 F12-3, as below)
                continue
            out.append({"op": "path.parse", "in": {"path": "/x/" + "".join(t) + "/y", "decl": [["p", "p_field"], ["q", "q"]]}})
    for _ in range(600):
        path = "".join(r.choice(["/", "a", "{p}", "{q}", "{", "}", "?", "-", "{pp}", "//", "\u00e9", "\u20ac", "\U0001f600"]) for _ in range(r.randint(0, 8)))
        if re.search(r"\{[^{}]*[^\x00-\x7f][^{}]*\}", path) or re.search(r"\{-+\}", path):
            # a non-ASCII parameter NAME (its field name goes through any_ascii, outside the naming model's
            # domain) or a name without any identifier character (field `_`: C09/C12 F12-3, not a request matter)
            continue
        out.append({"op": "path.parse", "in": {"path": path, "decl": r.choice([[], [["p", "p2"]], [["p", "a"], ["p", "b"]], [["pp", "pp"], ["q", "r#type"]]])}})
    # K: url push/decode, all strings <= 2 (quick) / 3 (thorough) chars over the alphabet
    n = 2 if ctx.quick else 3
    for k in range(0, n + 1):
        for t in itertools.product(CHARS, repeat=k):
            s = "".join(t)
            out.append({"op": "path.push", "in": {"base_path": "/", "segs": [list(b"pre"), list(s.encode())]}})
    for _ in range(500 if ctx.quick else 5000):
        segs = ["".join(r.choice(CHARS) for _ in range(r.randint(0, 5))) for _ in range(r.randint(1, 3))]
        out.append({"op": "path.push", "in": {"base_path": r.choice(["/", "/v1", "/api/v2", "/v1/"]), "segs": [list(s.encode()) for s in segs]}})
    # K: dot segments, also the ones that only appear once TAB/LF/CR are stripped, at every base path
    dotted = [[46, 46, 10], [46, 10], [98], [46, 10, 46], [], [46], [46, 46], [13, 46, 9]]
    for k in (1, 2) if ctx.quick else (1, 2, 3):
        for t in itertools.product(dotted, repeat=k):
            for b in ("/", "/v1", "/api/v2", "/v1/"):
                out.append({"op": "path.push", "in": {"base_path": b, "segs": [list(x) for x in t]}})
    # E: operations through the whole generator
    for m in METHODS:
        out.append({"op": "client.method", "in": {"op": {"method": m, "path": "/a/{id}", "params": [{"name": "id", "in": "path", "level": "op", "type": "string"}], "body": None}}})
    for _ in range(250 if ctx.quick else 2500):
        out.append(rand_op(r))
    # E: wire layout of query / header parameters: the whole grid once, then random combinations
    out += wire_grid()
    for _ in range(200 if ctx.quick else 2500):
        out.append(wire_op(r))
    return out


def run(ctx):
    ctx.translate(["naming"])
    proofs_ok, driver_ok = ctx.build_lean(["Oas3Model.Props.C03"])
    if proofs_ok:
        ctx.audit("Oas3Model.Props.C03")
        if not ctx.quick:
            ctx.leanchecker("Oas3Model.Props.C03")
    ctx.prepare = prepare
    if driver_ok and ctx.build_harness(["k_gen", "k_path"]):
        allc = vlib_corpus(ctx) + cases(ctx)
        B = 2000
        for i in range(0, len(allc), B):
            ctx.classify(ctx.evaluate(allc[i:i + B]), tie="K+E")
            if len(ctx.violations) >= 3:
                break
    return ctx.finish(
        checker_cmd="lake build Oas3Model.Props.C03 && #print axioms on every theorem" + ("" if ctx.quick else " && leanchecker"),
        trusted_base=vlib.TRUSTED_BASE + ["url 2.5 PathSegmentsMut::push + percent-encoding percent_decode: modelled in Sem/Url.lean, validated by running the real crates", "reqwest builder calls (.query/.headers/.json/.form/.body): which call is emitted", "serde rename = pair name, serde_with StringWithSeparator = join, serde_urlencoded skips None and rejects sequences, HeaderMap::insert under the constant's value: as stated in Model/ClientWire.lean (sequence rejection reproduced by tools/c03_wire_repro)", "syn extraction of the emitted client method, query struct and header-map impl (unrecognised constructs fail the judge)"],
        rule="K: every path template of <=3 (quick) / <=4 (thorough) parts over {lit,{p},{,},-,{q}} through ParsedPath::parse; every string of <=2 / <=3 characters over a 31-symbol alphabet (reserved URL characters, controls, non-ASCII) pushed through the real url crate and percent-decoded; E: all 8 HTTP methods + random operations (path/query/header params at both levels, mixed segments, 7 body media types) generated in-process, the emitted method parsed with syn and judged; query/header parameters member by member: a 258-operation grid (names needing a rename x style x explode x required x level x item type; every header name x type) + 200 (quick) / 2500 (thorough) random combinations incl. defaults; non-trivial = any branch other than plain; distinct by input hash",
        assumptions=["parameter names in E cases are ASCII", "a value passed to push is valid UTF-8 (Rust &str)"])
