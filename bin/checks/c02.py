"""C02 — generated schema types are faithful JSON codecs for their schemas.

Ties:  E  codec.type  real generator (in-process) on a spec whose component `T` is the schema under test; the
                      emitted types are parsed (syn) and `T` is expanded into everything serde sees (widths,
                      Option/Vec/HashMap nesting, struct fields + wire names + container attributes, unit-enum
                      renames/aliases); compared with the model's `typeOf`, and JUDGED through the trusted serde
                      semantics (Sem/Codec.lean) on every generated instance
       A  codec.run   (thorough) the emitted types compiled in an arena crate against the documented runtime
                      crates and EXECUTED: `serde_json::from_str::<T>` then `to_string`; judged directly and
                      compared with Sem's prediction
Instances come from an independent schema-directed generator (python, below); every verdict `valid` is computed
twice: by the Lean evaluator and by python `jsonschema` Draft 2020-12 (tools/jsvalidate.py, python3-vt) — a
disagreement fails the case.  Near-miss instances are single mutations of a valid instance.
"""
import copy, json, os, re, shutil, subprocess
import vlib
from checks.c09 import vlib_corpus

INT_FORMATS = [None, "int32", "int64", "int8", "int16", "uint8", "uint16", "uint32", "uint64"]
INT_RANGE = {None: (-2**63, 2**63 - 1), "int64": (-2**63, 2**63 - 1), "int32": (-2**31, 2**31 - 1), "int16": (-2**15, 2**15 - 1),
             "int8": (-128, 127), "uint8": (0, 255), "uint16": (0, 65535), "uint32": (0, 2**32 - 1), "uint64": (0, 2**64 - 1)}
PROP_NAMES = ["a", "b", "c", "id", "name", "foo-bar", "foo_bar", "fooBar", "type", "Value", "x-y", "k1", "@id", "Foo Bar", "match", "userId", "user_id", "q"]
ENUM_STR = ["a", "b", "x", "y", "foo-bar", "foo_bar", "FooBar", "A", "1x", "in", "on hold", "Z9"]
ENUM_OTHER = [1, 2, -3, 10, True, False]
STRS = ["", "a", "hello", "é中", "1", "null", "true", "x y"]
DECS = [0, 1, -2, 3, 1.5, -0.25, 100.125, 0.001, 2.5]
MAP_KEYS = ["k", "l", "x y", "foo-bar", "", "zz1", "Type"]
EXTRA_KEYS = ["zz1", "zz2", "foo_bar_9"]


# ------------------------------------------------------------------------------------------------
# schema trees  (primary data of a case; `ref` = rendering hint: hoist into a named component)
def leaf_schemas():
    out = [{"k": "str"}, {"k": "bool"}, {"k": "num", "f32": False}, {"k": "num", "f32": True}]
    out += [{"k": "int", "f": f} for f in INT_FORMATS]
    # `type: string` with a NUMERIC format (Google-style 64-bit numbers): from_format types the member as a number (F02-9)
    out += [{"k": "str", "f": "int64"}, {"k": "str", "f": "int32"}, {"k": "str", "f": "double"}, {"k": "str", "f": "byte"}]
    # `enum` with ONE string value / `const`: typed `String`, the value becomes the member's default (F02-15)
    out += [{"k": "single", "v": "x"}, {"k": "single", "v": "kk", "const": True}]
    return out


def gen_enum(r, used):
    for _ in range(20):
        n = r.randint(2, 4)
        strs = r.sample(ENUM_STR, r.randint(0, n))
        others = r.sample(ENUM_OTHER, n - len(strs))
        vals = strs + others
        r.shuffle(vals)
        key = tuple(sorted(strs))
        # C13 F-C13-1: the generator identifies inline enums by their STRING values only; stay clear of it
        if key in used and json.dumps(used[key]) != json.dumps(vals):      # (python: True == 1, so compare the JSON texts)
            continue
        used[key] = vals
        return {"k": "enum", "vals": vals, "ref": r.random() < 0.4}
    return {"k": "str"}


def gen_schema(r, depth, used):
    k = r.random()
    if depth <= 0 or k < 0.45:
        j = r.random()
        if j < 0.22:
            return gen_enum(r, used)
        return copy.deepcopy(r.choice(leaf_schemas()))
    if k < 0.58:
        return {"k": "arr", "s": gen_schema(r, depth - 1, used)}
    if k < 0.68:
        return {"k": "map", "s": gen_schema(r, depth - 1, used)}
    if k < 0.80:
        inner = gen_schema(r, depth - 1, used)
        if inner["k"] == "nullable":
            return inner
        return {"k": "nullable", "s": inner}
    return gen_obj(r, depth - 1, used)


def gen_obj(r, depth, used):
    names = sorted(r.sample(PROP_NAMES, r.randint(1, 4)), key=lambda s: s.encode())
    props = []
    for n in names:
        s = gen_schema(r, depth, used)
        d = None
        if s["k"] == "str" and not s.get("f") and r.random() < 0.35:      # (a string default on a member typed as a number is C17 matter)
            d = r.choice(["dd", "x", ""])
        props.append({"n": n, "s": s, "req": r.random() < 0.5, "d": d})
    a = r.random()
    addl = "absent" if a < 0.45 else "closed" if a < 0.7 else gen_schema(r, min(depth, 1), used)
    return {"k": "obj", "props": props, "addl": addl, "ref": r.random() < 0.4}


def wrap_root(s):
    if s["k"] == "obj":
        return s
    return {"k": "obj", "props": [{"n": "v", "s": s, "req": True, "d": None}], "addl": "absent"}


# ------------------------------------------------------------------------------------------------
# rendering to OpenAPI 3.1 / JSON Schema
class Render:
    def __init__(self):
        self.components = {}
        self.n = 0

    def hoist(self, js):
        self.n += 1
        name = f"Hx{self.n}"
        self.components[name] = js
        return {"$ref": "#/components/schemas/" + name}

    def scalar_type(self, s):
        k = s["k"]
        if k == "str":
            return "string", ({"format": s["f"]} if s.get("f") else {})
        if k == "bool":
            return "boolean", {}
        if k == "num":
            return "number", ({"format": "float"} if s.get("f32") else {})
        if k == "int":
            return "integer", ({"format": s["f"]} if s.get("f") else {})
        raise ValueError(k)

    def render(self, s, pos):
        """pos: 'prop' (direct property value), 'item1' (items of an array that is a direct property value), 'deep'"""
        k = s["k"]
        if k in ("str", "bool", "num", "int"):
            t, extra = self.scalar_type(s)
            return dict({"type": t}, **extra)
        if k == "single":
            return {"type": "string", "const": s["v"]} if s.get("const") else {"type": "string", "enum": [s["v"]]}
        if k == "enum":
            js = {"enum": list(s["vals"])}
            if all(isinstance(v, str) for v in s["vals"]):
                js["type"] = "string"
            if s.get("ref") or pos == "deep":
                return self.hoist(js)
            return js
        if k == "arr":
            return {"type": "array", "items": self.render(s["s"], "item1" if pos == "prop" else "deep")}
        if k == "map":
            return {"type": "object", "additionalProperties": self.render(s["s"], "deep")}
        if k == "obj":
            js = self.obj(s)
            if s.get("ref") or pos == "deep":
                return self.hoist(js)
            return js
        if k == "nullable":
            i = s["s"]
            ik = i["k"]
            if ik in ("str", "bool", "num", "int"):
                t, extra = self.scalar_type(i)
                return dict({"type": [t, "null"]}, **extra)
            if ik == "arr":
                return {"type": ["array", "null"], "items": self.render(i["s"], "deep")}
            if ik == "map":
                return {"type": ["object", "null"], "additionalProperties": self.render(i["s"], "deep")}
            if ik in ("obj", "enum"):
                if pos != "prop":
                    raise ValueError("nullable object/enum outside a property position is a union (C13-C15), not in the fragment")
                inner = self.render(dict(i, ref=True), "deep")
                return {"oneOf": [inner, {"type": "null"}]}
            raise ValueError("nullable of " + ik)
        raise ValueError(k)

    def obj(self, s):
        js = {"type": "object"}
        names = [p["n"] for p in s["props"]]
        if len(set(names)) != len(names) or names != sorted(names, key=lambda x: x.encode()):
            raise ValueError("props not sorted/distinct")
        if s["props"]:
            js["properties"] = {}
            # inline enum/struct types are NAMED after parent + property; two properties whose names sanitise
            # alike would share one generated type name (type naming is C09/C13's subject): hoist those
            norm = lambda n: "".join(ch for ch in n.lower() if ch.isalnum())
            cnt = {}
            for p in s["props"]:
                cnt[norm(p["n"])] = cnt.get(norm(p["n"]), 0) + 1
            for p in s["props"]:
                ps = self.render(p["s"], "prop" if cnt[norm(p["n"])] == 1 else "deep")
                if p["s"]["k"] == "single":
                    pass                                      # the value itself is the default; `d` is ignored
                elif p.get("d") is not None:
                    if p["s"]["k"] != "str":
                        raise ValueError("default on non-string")
                    ps = dict(ps, default=p["d"])
                js["properties"][p["n"]] = ps
            req = [p["n"] for p in s["props"] if p["req"]]
            if req:
                js["required"] = req
        a = s["addl"]
        if a == "closed":
            js["additionalProperties"] = False
        elif a != "absent":
            js["additionalProperties"] = self.render(a, "deep")
        if not s["props"]:
            raise ValueError("an object without declared properties is a map / serde_json::Value, not a struct: not in the fragment")
        return js


def split_layers(t, layout):
    """the flat object `t` written as an allOf hierarchy: every layer is a named component holding its own
    members (and `allOf` references to its parents); T keeps the rest.  Same JSON-Schema meaning as `t`."""
    props, req = t.get("properties", {}), t.get("required", [])
    taken = set()
    comps = {}
    names = [l["name"] for l in layout["layers"]]
    if len(set(names)) != len(names) or "T" in names or any(n.startswith("Hx") for n in names):
        raise ValueError("layer names")
    def own(ps):
        o = {"type": "object"}
        if ps:
            o["properties"] = {p: props[p] for p in ps}
        r = [p for p in req if p in ps]
        if r:
            o["required"] = r
        return o
    for i, l in enumerate(layout["layers"]):
        ps = [p for p in l["props"] if p in props and p not in taken]
        if len(ps) != len(l["props"]):
            raise ValueError("layer members must be distinct members of the object")
        taken.update(ps)
        if any(q not in names[:i] for q in l["parents"]):
            raise ValueError("parents must be earlier layers (no cycles: C12)")
        comps[l["name"]] = {"allOf": [{"$ref": "#/components/schemas/" + q} for q in l["parents"]] + [own(ps)]} if l["parents"] else own(ps)
    if not layout["root_parents"] or any(q not in names for q in layout["root_parents"]):
        raise ValueError("root parents")
    rest = [p for p in props if p not in taken]
    root = {"allOf": [{"$ref": "#/components/schemas/" + q} for q in layout["root_parents"]] + ([own(rest)] if rest else [])}
    return root, comps


def spec_of(schema):
    if schema["k"] != "obj":
        raise ValueError("root must be an object")
    rd = Render()
    t = rd.obj(schema)
    comps = dict(rd.components)
    if schema.get("layout"):
        if schema["addl"] != "absent":
            raise ValueError("allOf next to additionalProperties is outside the fragment")
        t, extra = split_layers(t, schema["layout"])
        if set(extra) & set(comps):
            raise ValueError("layer names")
        comps.update(extra)
    comps["T"] = t
    # C13 F-C13-1: the generator identifies enums by their STRING values only; two different enums with one such key share a
    # type. The tree generator stays clear of it (gen_enum); a document the SHRINKER walks into must be refused as well
    keys = {}
    def enums(v):
        if isinstance(v, dict):
            if isinstance(v.get("enum"), list):
                k = tuple(sorted(x for x in v["enum"] if isinstance(x, str)))
                if json.dumps(keys.setdefault(k, v["enum"])) != json.dumps(v["enum"]):     # (python: True == 1)
                    raise ValueError("two different enums with the same string values (C13 F-C13-1)")
            for x in v.values():
                enums(x)
        elif isinstance(v, list):
            for x in v:
                enums(x)
    enums(comps)
    spec = {"openapi": "3.1.0", "info": {"title": "t", "version": "1"}, "paths": {}, "components": {"schemas": comps}}
    root = {"$schema": "https://json-schema.org/draft/2020-12/schema", "$ref": "#/components/schemas/T", "components": {"schemas": comps}}
    return spec, root


# ------------------------------------------------------------------------------------------------
# independent schema-directed instance generator
def inst(s, r, wild=0.03):
    k = s["k"]
    if k == "str":
        return r.choice(STRS + (["123", "0", "-5", "1.5", "aGVsbG8="] if s.get("f") else []))
    if k == "single":
        return s["v"]
    if k == "bool":
        return r.random() < 0.5
    if k == "num":
        return r.choice(DECS)
    if k == "int":
        lo, hi = INT_RANGE[s.get("f")]
        if r.random() < wild:
            return r.choice([hi + 1, lo - 1, 2**64, -2**63 - 1])
        return r.choice([0, 1, lo, hi, r.randint(lo, hi), r.randint(max(lo, -100), min(hi, 100))])
    if k == "enum":
        return r.choice(s["vals"])
    if k == "arr":
        return [inst(s["s"], r, wild) for _ in range(r.choice([0, 1, 1, 2, 3]))]
    if k == "map":
        return {key: inst(s["s"], r, wild) for key in r.sample(MAP_KEYS, r.choice([0, 1, 2, 3]))}
    if k == "nullable":
        return None if r.random() < 0.3 else inst(s["s"], r, wild)
    if k == "obj":
        o = {}
        for p in s["props"]:
            if p["req"] or r.random() < 0.6:
                o[p["n"]] = inst(p["s"], r, wild)
        names = {p["n"] for p in s["props"]}
        a = s["addl"]
        if a == "absent":
            if r.random() < 0.2:
                o[r.choice(EXTRA_KEYS)] = r.choice([1, "u", None, [1], {"z": 1}])
        elif a != "closed":
            for key in r.sample(EXTRA_KEYS + MAP_KEYS[:2], r.choice([0, 0, 1, 2])):
                if key not in names:
                    o[key] = inst(a, r, wild)
        return o
    raise ValueError(k)


def wrong_type_values(s):
    k = s["k"]
    if k == "str":
        return [5, True, ["a"], {"a": 1}]
    if k == "single":
        return [5, [s["v"]], None]
    if k == "bool":
        return [0, "true", [True]]
    if k == "num":
        return ["1.5", True, [1.5]]
    if k == "int":
        return [1.5, "5", True, [1]]
    if k == "enum":
        return [["a"], {"a": 1}]
    if k == "arr":
        return ["a", {"0": 1}, 3]
    if k == "map":
        return [[], [1], "a"]
    if k == "obj":
        return ["a", 7]
    return []


def mutations(s, doc):
    """all single-position near-misses of a valid doc: (kind, mutated doc)"""
    k = s["k"]
    if k == "nullable":
        if doc is None:
            return
        for kind, m in mutations(s["s"], doc):
            yield kind, m
        return
    for w in wrong_type_values(s):
        yield "wrong-type", w
    if k == "single":
        yield "undeclared-enum", "zzz"
        yield "undeclared-enum", s["v"] + "2"
    if k == "enum":
        yield "undeclared-enum", "zzz"
        for v in s["vals"]:
            if not isinstance(v, str):
                yield "undeclared-enum", json.dumps(v)
        yield "undeclared-enum", 999
    if k == "arr" and isinstance(doc, list):
        for i, x in enumerate(doc):
            for kind, m in mutations(s["s"], x):
                yield kind, doc[:i] + [m] + doc[i + 1:]
    if k == "map" and isinstance(doc, dict):
        for key in doc:
            for kind, m in mutations(s["s"], doc[key]):
                yield kind, dict(doc, **{key: m})
    if k == "obj" and isinstance(doc, dict):
        yield "wrong-type", [doc[p["n"]] for p in s["props"] if p["n"] in doc]       # positional array
        yield "wrong-type", []
        names = {p["n"] for p in s["props"]}
        for p in s["props"]:
            if p["n"] in doc:
                if p["req"] and p.get("d") is None:
                    d = dict(doc)
                    del d[p["n"]]
                    yield "missing-required", d
                for kind, m in mutations(p["s"], doc[p["n"]]):
                    yield kind, dict(doc, **{p["n"]: m})
        a = s["addl"]
        if a == "closed":
            yield "unknown-member", dict(doc, zz9=1)
        elif a != "absent":
            for key in doc:
                if key not in names:
                    for kind, m in mutations(a, doc[key]):
                        yield kind, dict(doc, **{key: m})
            for w in wrong_type_values(a)[:1]:
                yield "wrong-type", dict(doc, zz8=w)


def gen_docs(schema, r, n_valid, n_miss):
    docs = []
    for _ in range(n_valid):
        docs.append(inst(schema, r))
    base = inst(schema, r, wild=0)
    muts = [m for _, m in mutations(schema, base)]
    if muts:
        docs += r.sample(muts, min(n_miss, len(muts)))
    seen, out = set(), []
    for d in docs:
        key = json.dumps(d, sort_keys=True)
        if key not in seen:
            seen.add(key)
            out.append(d)
    return out


# ------------------------------------------------------------------------------------------------
class Oracle:
    """persistent python3-vt process running jsonschema"""

    def __init__(self):
        self.p = None

    def ask(self, root, docs):
        if self.p is None or self.p.poll() is not None:
            self.p = subprocess.Popen(["python3-vt", os.path.join(vlib.VERIF, "tools", "jsvalidate.py")], stdin=subprocess.PIPE, stdout=subprocess.PIPE, text=True)
        self.p.stdin.write(json.dumps({"root": root, "docs": docs}) + "\n")
        self.p.stdin.flush()
        line = self.p.stdout.readline()
        if not line:
            raise RuntimeError("jsonschema oracle died")
        return json.loads(line)


ORACLE = Oracle()


def prepare(case):
    """derived fields (OpenAPI document, generator config, jsonschema verdicts) are rebuilt from the primary data"""
    if case["op"] == "codec.union":
        return prepare_union(case)
    if case["op"] not in ("codec.type",):
        return case
    i = case["in"]
    schema = i["schema"]
    spec, root = spec_of(schema)
    docs = [d["doc"] if isinstance(d, dict) and set(d) == {"doc", "valid"} else d for d in i["docs"]]
    verdicts = ORACLE.ask(root, docs)
    d = {"schema": schema, "docs": [{"doc": x, "valid": v} for x, v in zip(docs, verdicts)],
         "spec": spec, "cfg": {"all_schemas": True}, "mode": "types", "root": "T"}
    if case.get("_want_code"):
        d["want"] = ["code"]
    return {"op": case["op"], "in": d}


# ------------------------------------------------------------------------------------------------
# untagged unions: T = {oneOf | anyOf: [alternatives]}; an alternative is {"const": str} | {"null": true} | {"s": schema tree}
def union_spec(alts, one_of):
    rd = Render()
    js = []
    for a in alts:
        if "const" in a:
            js.append(dict({"const": a["const"]}, **({"description": a["doc"]} if a.get("doc") else {})))
        elif "free" in a:
            js.append({"obj": {"type": "object"}, "objNull": {"type": ["object", "null"]}, "objClosed": {"type": "object", "additionalProperties": False},
                       "any": {}}[a["free"]])
        elif "s" in a:
            if a["s"]["k"] == "nullable":
                raise ValueError("a nullable alternative is a nested union")
            js.append(rd.render(a["s"], "prop"))
        else:
            js.append({"type": "null"})
    real = [a for a in alts if "const" in a or "s" in a or ("free" in a and a["free"] != "objNull")]
    if len(real) < 2:
        raise ValueError("a union with fewer than two alternatives besides null / nullable free-form object is an Option / alias, not an enum")
    cs = [a["const"] for a in alts if "const" in a]
    if len(set(cs)) != len(cs):
        raise ValueError("one constant twice")
    if any("s" in a and a["s"]["k"] == "enum" and not all(isinstance(v, str) for v in a["s"]["vals"]) for a in alts):
        raise ValueError("non-string enum alternative")
    comps = dict(rd.components)
    comps["T"] = {("oneOf" if one_of else "anyOf"): js}
    spec = {"openapi": "3.1.0", "info": {"title": "t", "version": "1"}, "paths": {}, "components": {"schemas": comps}}
    root = {"$schema": "https://json-schema.org/draft/2020-12/schema", "$ref": "#/components/schemas/T", "components": {"schemas": comps}}
    return spec, root


def prepare_union(case):
    i = case["in"]
    spec, root = union_spec(i["alts"], i["oneOf"])
    docs = [d["doc"] if isinstance(d, dict) and set(d) == {"doc", "valid"} else d for d in i["docs"]]
    verdicts = ORACLE.ask(root, docs)
    d = {"alts": i["alts"], "oneOf": i["oneOf"], "docs": [{"doc": x, "valid": v} for x, v in zip(docs, verdicts)],
         "spec": spec, "cfg": {"all_schemas": True}, "mode": "types", "root": "T"}
    if case.get("_want_code"):
        d["want"] = ["code"]
    return {"op": "codec.union", "in": d}


UNION_CONSTS = ["red", "green", "auto", "foo-bar", "Z9", "on hold", ""]


def union_alt_pool(r):
    o = lambda props, addl, ref=False: dict({"k": "obj", "props": props, "addl": addl}, **({"ref": True} if ref else {}))
    P = lambda n, s, req=True: {"n": n, "s": s, "req": req, "d": None}
    return [
        {"s": {"k": "str"}}, {"s": {"k": "bool"}}, {"s": {"k": "num", "f32": False}}, {"s": {"k": "int", "f": None}}, {"s": {"k": "int", "f": "int32"}},
        {"s": {"k": "int", "f": "uint8"}}, {"s": {"k": "str", "f": "int64"}},
        {"s": {"k": "arr", "s": {"k": "str"}}}, {"s": {"k": "arr", "s": {"k": "int", "f": "int32"}}}, {"s": {"k": "map", "s": {"k": "bool"}}},
        {"s": {"k": "enum", "vals": ["p", "q"]}}, {"s": {"k": "enum", "vals": ["p", "q", "foo-bar"], "ref": True}},
        {"s": o([P("a", {"k": "str"})], "absent")}, {"s": o([P("a", {"k": "str"})], "closed", True)},
        {"s": o([P("a", {"k": "str"}), P("b", {"k": "int", "f": None})], "absent", True)},
        {"s": o([P("a", {"k": "str"}), P("b", {"k": "int", "f": None}, False)], "closed")},
        {"s": o([P("b", {"k": "int", "f": "int32"})], "absent", True)}, {"s": o([P("c", {"k": "nullable", "s": {"k": "bool"}}, False)], "closed", True)},
        {"s": o([P("type", {"k": "enum", "vals": ["x", "y"]}), P("v", {"k": "num", "f32": False}, False)], "absent", True)},
        {"s": {"k": "single", "v": "only"}},
        {"free": "obj"}, {"free": "objNull"}, {"free": "objClosed"}, {"free": "any"},
        {"null": True},
    ] + [{"const": c} for c in UNION_CONSTS] + [{"const": "auto", "doc": "the default"}]


def union_docs(alts, r):
    docs = [None, "zzz", 7, 1.5, True, [], {}, ["a"], {"a": "x"}, {"a": "x", "b": 1}, {"b": 2}]
    for a in alts:
        if "const" in a:
            docs.append(a["const"])
        elif "s" in a:
            for _ in range(2):
                docs.append(inst(a["s"], r))
            base = inst(a["s"], r, wild=0)
            muts = [m for _, m in mutations(a["s"], base)]
            docs += r.sample(muts, min(2, len(muts)))
    # an untagged enum buffers its input: integers beyond 2^53 that end up in an f64 or `Value` variant come back rounded, which
    # the canonical-decimal model of numbers does not follow (integer widths are the struct cases' subject)
    def small(x):
        if isinstance(x, bool):
            return x
        if isinstance(x, int) and abs(x) > 2 ** 53:
            return x % 1000
        if isinstance(x, list):
            return [small(y) for y in x]
        if isinstance(x, dict):
            return {k: small(v) for k, v in x.items()}
        return x
    seen, out = set(), []
    for d in docs:
        d = small(d)
        key = json.dumps(d, sort_keys=True)
        if key not in seen:
            seen.add(key)
            out.append(d)
    return out


def mku(alts, one_of, docs):
    return {"op": "codec.union", "in": {"alts": alts, "oneOf": one_of, "docs": docs}}


def union_cases(ctx, r):
    """all-const unions of every size <= 3, every ordered pair of the alternative pool, random 2-4 lists; oneOf and anyOf"""
    out = []
    pool = union_alt_pool(r)
    lists = []
    consts = [{"const": c} for c in UNION_CONSTS]
    for n in (2, 3):
        for _ in range(4 if ctx.quick else 20):
            lists.append(r.sample(consts, n))
    lists.append([{"const": "red", "doc": "warm"}, {"const": "green"}, {"null": True}])
    pairs = [[copy.deepcopy(a), copy.deepcopy(b)] for a in pool for b in pool if a is not b]
    lists += r.sample(pairs, 120) if ctx.quick else pairs
    for _ in range(120 if ctx.quick else 3000):
        lists.append([copy.deepcopy(x) for x in r.sample(pool, r.randint(2, 4))])
    for alts in lists:
        for one_of in (True, False):
            try:
                union_spec(alts, one_of)
            except ValueError:
                continue
            out.append(mku(alts, one_of, union_docs(alts, r)))
    return out



def mk(schema, docs):
    return {"op": "codec.type", "in": {"schema": schema, "docs": docs}}


def exhaustive(ctx, r):
    """every leaf kind x wrapper x member status x additionalProperties as a one/two-member object"""
    out = []
    leaves = leaf_schemas() + [{"k": "enum", "vals": ["a", "b"]}, {"k": "enum", "vals": ["a", "b"], "ref": True}, {"k": "enum", "vals": ["x", 1, True]},
                               {"k": "enum", "vals": ["foo-bar", "foo_bar", "z"]},
                               {"k": "obj", "props": [{"n": "q", "s": {"k": "str"}, "req": True, "d": None}], "addl": "absent"},
                               {"k": "obj", "props": [{"n": "q", "s": {"k": "bool"}, "req": False, "d": None}], "addl": "closed", "ref": True}]
    wrappers = [lambda s: s, lambda s: {"k": "nullable", "s": s}, lambda s: {"k": "arr", "s": s}, lambda s: {"k": "map", "s": s},
                lambda s: {"k": "nullable", "s": {"k": "arr", "s": s}}, lambda s: {"k": "arr", "s": {"k": "nullable", "s": s}},
                lambda s: {"k": "arr", "s": {"k": "arr", "s": s}}, lambda s: {"k": "map", "s": {"k": "arr", "s": s}}, lambda s: {"k": "nullable", "s": {"k": "map", "s": s}}]
    addls = ["absent", "closed", {"k": "int", "f": None}, {"k": "str"}]
    for leaf in leaves:
        for wi, w in enumerate(wrappers):
            if wi in (1, 5) and False:
                continue
            for req in (False, True):
                for addl in addls:
                    s = w(copy.deepcopy(leaf))
                    props = [{"n": "m", "s": s, "req": req, "d": None}]
                    if wi == 0 and leaf["k"] == "str":
                        for d in ((None, "dd") if not leaf.get("f") else (None,)):
                            for sib in (False, True):
                                ps = [dict(props[0], d=d)] + ([{"n": "z", "s": {"k": "int", "f": "int32"}, "req": True, "d": None}] if sib else [])
                                out.append({"k": "obj", "props": ps, "addl": copy.deepcopy(addl)})
                    else:
                        out.append({"k": "obj", "props": props, "addl": copy.deepcopy(addl)})
    # field-name collisions (deduplicate_names) and keyword / renamed members
    for names in (["foo-bar", "foo_bar"], ["foo-bar", "fooBar", "foo_bar"], ["@id", "id"], ["type", "match"], ["Foo Bar", "x-y"], ["userId", "user_id"]):
        for req in (False, True):
            for addl in ("absent", "closed", {"k": "str"}):
                ps = [{"n": n, "s": {"k": "str"}, "req": req, "d": None} for n in sorted(names, key=lambda x: x.encode())]
                out.append({"k": "obj", "props": ps, "addl": copy.deepcopy(addl)})
    return out


LAYER_NAMES = ["Aa", "Mid", "Plain", "Umid", "Zeta", "Zz"]     # on both sides of "T" in schema-name order


def random_layout(r, names):
    """an allOf hierarchy over the members `names`: 1-3 layers, flat / chained / mixed, in any name order"""
    k = r.randint(1, min(3, max(1, len(names))))
    lnames = r.sample(LAYER_NAMES, k)
    pool = list(names)
    r.shuffle(pool)
    layers = []
    for i, ln in enumerate(lnames):
        take = [pool.pop()] if pool else []
        while pool and r.random() < 0.3:
            take.append(pool.pop())
        parents = [q for q in lnames[:i] if r.random() < 0.5]
        layers.append({"name": ln, "parents": parents, "props": sorted(take, key=lambda x: x.encode())})
    used_as_parent = {q for l in layers for q in l["parents"]}
    roots = [l["name"] for l in layers if l["name"] not in used_as_parent] or [layers[-1]["name"]]
    return {"layers": layers, "root_parents": roots}


def layered(ctx, r):
    """members {a: required string, b: optional int32, c: required boolean, d: optional string with default}
    spread over every 1-/2-layer hierarchy shape and every order of layer names around `T`"""
    base = [{"n": "a", "s": {"k": "str"}, "req": True, "d": None}, {"n": "b", "s": {"k": "int", "f": "int32"}, "req": False, "d": None},
            {"n": "c", "s": {"k": "bool"}, "req": True, "d": None}, {"n": "d", "s": {"k": "str"}, "req": False, "d": "dd"}]
    out = []
    import itertools
    for n1, n2 in itertools.permutations(LAYER_NAMES, 2):
        for shape in ("flat", "chain"):
            for split in ((["a"], ["b"]), (["a", "b"], ["c"]), (["c"], ["a", "d"]), ([], ["a"])):
                l1 = {"name": n1, "parents": [], "props": split[0]}
                l2 = {"name": n2, "parents": [n1] if shape == "chain" else [], "props": split[1]}
                roots = [n2] if shape == "chain" else [n1, n2]
                out.append({"k": "obj", "props": copy.deepcopy(base), "addl": "absent", "layout": {"layers": [l1, l2], "root_parents": roots}})
    for n1 in LAYER_NAMES:
        out.append({"k": "obj", "props": copy.deepcopy(base), "addl": "absent", "layout": {"layers": [{"name": n1, "parents": [], "props": ["a", "b", "c", "d"]}], "root_parents": [n1]}})
    return out


KEYWORD_NAMES = ["title", "description", "default", "example", "examples", "enum", "type", "format", "required", "properties", "items", "const",
                 "deprecated", "readOnly", "nullable", "allOf", "$ref", "x-ext", "externalDocs", "additionalProperties"]


def layered3():
    """three layers, the root extends a CHAIN (L2 extends L1) and a lone mixin L3, in both orders of the `allOf` list, for every
    assignment of names on both sides of `T` — the order in which hierarchies are flattened depends on depth and name (always run,
    not sampled: a flattening order that is right only for the first-listed parent shows on these shapes and on no two-layer one)"""
    base = [{"n": "a", "s": {"k": "str"}, "req": True, "d": None}, {"n": "b", "s": {"k": "int", "f": "int32"}, "req": False, "d": None},
            {"n": "c", "s": {"k": "bool"}, "req": True, "d": None}, {"n": "e", "s": {"k": "int", "f": None}, "req": True, "d": None}]
    out = []
    import itertools
    for n1, n2, n3 in itertools.permutations(["Aa", "Mid", "Zeta", "Zz"], 3):
        for order in (0, 1):
            l1 = {"name": n1, "parents": [], "props": ["a", "b"]}
            l2 = {"name": n2, "parents": [n1], "props": ["c"]}
            l3 = {"name": n3, "parents": [], "props": ["e"]}
            roots = [n3, n2] if order == 0 else [n2, n3]
            out.append({"k": "obj", "props": copy.deepcopy(base), "addl": "absent", "layout": {"layers": [l1, l2, l3], "root_parents": roots}})
    return out


def keyword_named(ctx, r):
    """two inline objects in one document that differ ONLY by members whose names are schema keywords: the members
    are data, not annotations (each object keeps its own members on the wire)"""
    out = []
    base = [{"n": "id", "s": {"k": "int", "f": None}, "req": True, "d": None}, {"n": "name", "s": {"k": "str"}, "req": False, "d": None}]
    picks = [[k] for k in KEYWORD_NAMES] + [["title", "description"], ["default", "example", "examples"], ["type", "format", "enum"]]
    for extra in picks:
        for req in (False, True):
            second = sorted(base + [{"n": k, "s": {"k": "str"}, "req": req, "d": None} for k in extra], key=lambda p: p["n"].encode())
            ps = [{"n": "m1", "s": {"k": "obj", "props": copy.deepcopy(base), "addl": "absent"}, "req": True, "d": None},
                  {"n": "m2", "s": {"k": "obj", "props": second, "addl": "absent"}, "req": True, "d": None}]
            out.append({"k": "obj", "props": ps, "addl": "absent"})
    return out


def plural_siblings(ctx, r):
    """an array member and the sibling member whose name is its singular, both with INLINE object types of different
    shapes: the item type and the sibling's type want one generated name; each must keep its own members"""
    out = []
    a = [{"n": "code", "s": {"k": "str"}, "req": True, "d": None}, {"n": "memo", "s": {"k": "int", "f": None}, "req": False, "d": None}]
    b = [{"n": "active", "s": {"k": "bool"}, "req": False, "d": None}, {"n": "rank", "s": {"k": "int", "f": "int32"}, "req": True, "d": None}, {"n": "title", "s": {"k": "str"}, "req": False, "d": None}]
    for plural, single in (("categories", "category"), ("policies", "policy"), ("entries", "entry"), ("lines", "line"), ("boxes", "box")):
        for first, second in ((a, b), (b, a)):
            for req in (False, True):
                ps = sorted([{"n": plural, "s": {"k": "arr", "s": {"k": "obj", "props": copy.deepcopy(first), "addl": "absent"}}, "req": req, "d": None},
                             {"n": single, "s": {"k": "obj", "props": copy.deepcopy(second), "addl": "absent"}, "req": req, "d": None}], key=lambda p: p["n"].encode())
                out.append({"k": "obj", "props": ps, "addl": "absent"})
    return out


def cases(ctx):
    r = ctx.rng
    out = []
    for s in plural_siblings(ctx, r):
        try:
            spec_of(s)
        except ValueError:
            continue
        out.append(mk(s, gen_docs(s, r, 3, 5)))
    lay = layered(ctx, r)
    for s in (r.sample(lay, 60) if ctx.quick else lay):
        out.append(mk(s, gen_docs(s, r, 3, 5)))
    for s in layered3():
        out.append(mk(s, gen_docs(s, r, 3, 4)))
    kw = keyword_named(ctx, r)
    for s in (r.sample(kw, 16) if ctx.quick else kw):
        try:
            spec_of(s)
        except ValueError:
            continue
        out.append(mk(s, gen_docs(s, r, 3, 5)))
    ex = exhaustive(ctx, r)
    ok = []
    for s in ex:
        try:
            spec_of(s)
            ok.append(s)
        except ValueError:
            pass
    ex = ok
    if ctx.quick:
        ex = r.sample(ex, min(len(ex), 450))
    for s in ex:
        try:
            spec_of(s)
        except ValueError:
            continue
        out.append(mk(s, gen_docs(s, r, 4, 6)))
    n = 350 if ctx.quick else 8000
    for _ in range(n):
        s = wrap_root(gen_schema(r, r.choice([1, 2, 2, 3]), {}))
        s.pop("ref", None)
        if s["addl"] == "absent" and len(s["props"]) >= 2 and r.random() < 0.3:
            s["layout"] = random_layout(r, [p["n"] for p in s["props"]])
        try:
            spec_of(s)
        except ValueError:
            continue
        out.append(mk(s, gen_docs(s, r, 4, 5)))
    out += union_cases(ctx, r)
    return out


# ------------------------------------------------------------------------------------------------
# tie A: compile + run the emitted types
def strip_header(code):
    return "\n".join(l for l in code.splitlines() if not l.startswith("#![") and not l.startswith("//!"))


def rust_raw(s):
    n = 1
    while '"' + "#" * n in s:
        n += 1
    h = "#" * n
    return f'r{h}"{s}"{h}'


def arena_run(ctx, tcases):
    sent = [prepare(dict(c, _want_code=True)) for c in tcases]
    triples = ctx.run_impl(sent)
    adir = os.path.join(vlib.CACHE, "arena-c02")
    src = os.path.join(adir, "src")
    shutil.rmtree(src, ignore_errors=True)
    os.makedirs(src, exist_ok=True)
    shutil.copyfile(os.path.join(vlib.VERIF, "arena", "c02", "Cargo.toml"), os.path.join(adir, "Cargo.toml"))
    shutil.copyfile(os.path.join(vlib.REPO, "Cargo.lock"), os.path.join(adir, "Cargo.lock"))
    mods, calls, kept = [], [], []
    for i, (c, s, t) in enumerate(zip(tcases, sent, triples)):
        code = (t.get("impl") or {}).get("code")
        if not code:
            continue
        # finding F01-18 (C01's subject): an Option member named `errors` / `entry` with a validate attribute does not compile
        if re.search(r"#\[validate\([^\]]*\)\]\s*pub (errors|entry): Option<", code):
            ctx.extra["arena_skipped_F01_18"] = ctx.extra.get("arena_skipped_F01_18", 0) + 1
            continue
        docs = [json.dumps(d["doc"], ensure_ascii=False) for d in s["in"]["docs"]]
        probe = "\npub fn probe() -> String {\n    let docs: &[&str] = &[" + ", ".join(rust_raw(d) for d in docs) + "];\n" + '''    let mut out = vec![];
    for d in docs {
        out.push(match serde_json::from_str::<T>(d) {
            Ok(v) => format!("{{\\"ok\\":true,\\"out\\":{}}}", serde_json::to_string(&v).unwrap()),
            Err(_) => "{\\"ok\\":false}".to_string(),
        });
    }
    format!("[{}]", out.join(","))
}
'''
        open(os.path.join(src, f"c{i}.rs"), "w").write(strip_header(code) + probe)
        mods.append(f"mod c{i};")
        calls.append(f'    println!("{{{{\\"id\\":{i},\\"runs\\":{{}}}}}}", c{i}::probe());')
        kept.append(i)
    open(os.path.join(src, "main.rs"), "w").write("#![allow(warnings)]\n" + "\n".join(mods) + "\nfn main() {\n" + "\n".join(calls) + "\n}\n")
    env = dict(vlib.ENV, CARGO_TARGET_DIR=os.path.join(vlib.CACHE, "arena-target"))
    with vlib.lock("cargo-arena"):
        rc, out, err = vlib.sh(["cargo", "build", "--offline"], cwd=adir, timeout=3000, env=env)
        if rc != 0:
            ctx.breaks.append(vlib.Break("harness", "arena-build:c02", err[-6000:]))
            return []
        rc, out, err = vlib.sh([os.path.join(vlib.CACHE, "arena-target", "debug", "arena-c02")], cwd=adir, timeout=600)
    res = {}
    for l in out.splitlines():
        try:
            o = json.loads(l)
            res[o["id"]] = o["runs"]
        except Exception:
            pass
    outp = []
    for i in kept:
        runs = res.get(i)
        if runs is None:
            ctx.breaks.append(vlib.Break("harness", "arena-run:c02", f"no output for case {i}: rc={rc} {err[-500:]}"))
            continue
        sin = sent[i]["in"]
        obs = []
        for d, run in zip(sin["docs"], runs):
            # what the decoder builds out of an INVALID document is not part of the property: only acceptance
            obs.append(run if (d["valid"] or not run["ok"]) else {"ok": True})
        rop = "codec.urun" if tcases[i]["op"] == "codec.union" else "codec.run"
        case = {"op": rop, "in": tcases[i]["in"]}
        outp.append((case, {"op": rop, "in": {k: v for k, v in sin.items() if k in ("schema", "docs", "alts", "oneOf")}, "impl": {"runs": obs}}))
    return outp


def run(ctx):
    proofs_ok, driver_ok = ctx.build_lean(["Oas3Model.Props.C02"])
    if proofs_ok:
        ctx.audit("Oas3Model.Props.C02")
        if not ctx.quick:
            ctx.leanchecker("Oas3Model.Props.C02")
    ctx.prepare = prepare
    if driver_ok and ctx.build_harness(["k_codec"]):
        corpus = [c for c in vlib_corpus(ctx)]
        if ctx.replay and ctx.replay.get("case"):
            corpus.insert(0, ctx.replay["case"])
        allc = corpus + cases(ctx)
        B = 400
        for i in range(0, len(allc), B):
            ctx.classify(ctx.evaluate(allc[i:i + B], tie="E"), tie="E")
            if len(ctx.violations) >= 3:
                break
        ctx.extra["instances"] = sum(len(c["in"]["docs"]) for c in allc)
        ctx.extra["union_cases"] = sum(1 for c in allc if c["op"] == "codec.union")
        if not ctx.quick and not ctx.violations:
            tc = [c for c in allc if c["op"] == "codec.type"]
            pick = [c for c in corpus if c["op"] in ("codec.type", "codec.union")]
            rest = [c for c in tc if c not in pick]
            pick += ctx.rng.sample(rest, min(600, len(rest)))
            uc = [c for c in allc if c["op"] == "codec.union" and c not in pick]
            pick += ctx.rng.sample(uc, min(250, len(uc)))
            pairs = arena_run(ctx, pick)
            if pairs:
                answers = ctx.run_model([t for _, t in pairs])
                ctx.ties["A"] = len(pairs)
                ctx.classify([(c, t, a) for (c, t), a in zip(pairs, answers)], shrink=False, tie="A")
    return ctx.finish(
        checker_cmd="lake build Oas3Model.Props.C02 && #print axioms on every theorem" + ("" if ctx.quick else " && leanchecker Oas3Model.Props.C02"),
        trusted_base=vlib.TRUSTED_BASE + [
            "Sem/Codec.lean: serde's derived Deserialize/Serialize for the emitted shapes (integer widths, Option, Vec, HashMap, unit enums with rename/alias, structs with rename / flatten map / deny_unknown_fields / container default / skip_serializing_none, visit_seq of structs) — validated on compiled code by tie A in the thorough tier",
            "Sem/Codec.lean `valid`: JSON Schema evaluator for type/enum/items/properties/required/additionalProperties — cross-checked against python jsonschema (Draft 2020-12) on every generated instance",
            "numbers are identified with canonical decimals (generated decimals have <= 6 significant digits; 1 and 1.0 are one value)",
            "Sem/Union.lean: serde's derived untagged enum (buffered input, variants tried in declaration order, unit variant = JSON unit) and the JSON-Schema meaning of oneOf / anyOf / const — validated on compiled code by tie A (codec.urun) and against python jsonschema on every document",
            "syn-based expansion of the emitted types (harness/src/k_codec.rs); type NAMES are dropped (C09/C13)"],
        rule="E: bounded-exhaustive one-member objects {string, boolean, number x {none,float}, integer x 9 formats, 4 enums, 2 inline/$ref objects} x 9 wrappers (plain, nullable, array, map, nested) x {required, optional, default} x additionalProperties {absent, false, integer, string} "
             "+ field-name collision families + the same objects written as allOf hierarchies (bounded-exhaustive two-layer shapes x all layer-name orders; random 1-3 layer layouts on 30% of the random trees) + pairs of inline objects that differ only by members named like schema keywords + an array member next to the sibling named like its singular, both with inline object types + random schema trees of depth <= 3 (inline / hoisted into components at random); each with valid instances from an independent generator and single-mutation near-misses "
             "(missing required, wrong JSON type, undeclared enum value, unknown member, positional array); "
             "untagged unions as the root type (codec.union): unions of 2-3 constants, ordered pairs over a pool of 27 alternatives (sampled in the quick tier), random lists of 2-4, each as oneOf and anyOf, with instances and mutations of every alternative, every constant, null and a fixed cross set; "
             "A (thorough): 600 of the object cases and 250 of the union cases compiled and executed; distinct by input hash, non-trivial = any case",
        assumptions=["the root schema is an object named T; non-object schemas are tested as its required member `v`",
                     "default --enum-mode merge, no discriminators (C14); unions only as the root type, without nullable alternatives or non-string enums; allOf only as a hierarchy of plain objects (members spread over 1-3 named layers, flat or chained, layer names on both sides of the root in name order), no string formats with serde_with codecs (date, date-time, uuid, byte), no `additionalProperties: true`",
                     "property names are ASCII (any_ascii is the identity) and avoid C09's panicking names"])
