"""C09 — every spec name becomes a valid, collision-free Rust identifier."""
import itertools, json
import vlib

ALPHA = ["a", "b", "A", "B", "1", "_", "-", " ", ".", "@", "{", "#", "é", "中", "😀"]
KEYWORDS = ["as","break","const","continue","crate","else","enum","extern","false","fn","for","if","impl","in","let","loop","match","mod","move","mut","pub","ref","return","self","Self","static","struct","super","trait","true","type","unsafe","use","where","while","async","await","dyn","abstract","become","box","do","final","macro","override","priv","typeof","unsized","virtual","yield","try","gen","union","macro_rules","_",
            "Clone","Copy","Display","Option","Result","Send","Sync","Type","Vec","String","Box","Default","Debug","Some","None","Ok","Err","Self_","r#type","r#Self","r#crate","r#1","r#","r#a-b","-self","-Self","-1","--","build","builder"]
SAN = ["naming.field", "naming.type", "naming.const"]


def strings_upto(n):
    for k in range(n + 1):
        for t in itertools.product(ALPHA, repeat=k):
            yield "".join(t)


def cases(ctx):
    out = []
    for w in KEYWORDS + [w.upper() for w in KEYWORDS] + [w.capitalize() for w in KEYWORDS]:
        for op in SAN:
            out.append({"op": op, "in": {"s": w}})
    maxlen = 3 if ctx.quick else 5
    for s in strings_upto(maxlen):
        for op in SAN:
            out.append({"op": op, "in": {"s": s}})
        if len(s) <= maxlen - 1:
            for op in SAN:
                out.append({"op": op, "in": {"s": "r#" + s}})
    r = ctx.rng
    words = ["foo", "Bar", "HTTP", "v2", "XMLParser", "user_id", "type", "self", "Self", "crate", "Vec", "iOS", "éclair", "日本", "ß", "İ", "ǅ", "ﬁ", "K", "́", "​", "\x00", "\n", "\"", "\\", "*/", "$ref", "@odata.type", "x-y", "a.b", "  ", "__", "9", "-", "--x", "r#"]
    n = 4000 if ctx.quick else 60000
    for _ in range(n):
        k = r.randint(1, 4)
        s = "".join(r.choice(words) if r.random() < 0.6 else r.choice(ALPHA) for _ in range(k))
        out.append({"op": r.choice(SAN), "in": {"s": s}})
    # uniqueness helpers
    for _ in range(600 if ctx.quick else 6000):
        base = r.choice(["a", "x", "get", "a2", "x_2", ""])
        used = set()
        for _ in range(r.randint(0, 8)):
            used.add(r.choice([base, base + str(r.randint(2, 6)), base + "_" + str(r.randint(2, 6)), "b", base + "1", base + "02"]))
        op = r.choice(["naming.ensure_unique", "naming.ensure_unique_snake"])
        out.append({"op": op, "in": {"base": base, "used": sorted(used)}})
    return out


COLLIDE = [["foo-bar", "foo_bar"], ["fooBar", "foo_bar", "FooBar"], ["a", "A"], ["x", "X", "x "], ["id", "Id", "ID"], ["user-id", "userId", "user_id", "USER_ID"], ["type", "Type"], ["1a", "_1a"], ["a.b", "a-b", "a b"]]
LABELS = [["Figure", "Figure", "Figure"], ["Foo", "Foo", "Foo2"], ["Item", "Item", "Item", "Item"], ["A", "a", "A"], ["Box", "Vec", "Box"], ["x y", "x-y", "xY"]]


def scope_cases(ctx):
    from specgen import base_spec
    out = []
    def spec_with(schemas):
        s = base_spec()
        s["components"]["schemas"].update(schemas)
        s["paths"]["/r"] = {"get": {"operationId": "r", "responses": {"200": {"description": "ok", "content": {"application/json": {"schema": {"$ref": "#/components/schemas/Root"}}}}}}}
        return s
    for names in COLLIDE:
        props = {n: {"type": "string"} for n in names}
        out.append({"op": "naming.scopes", "in": {"kind": "props", "spec": spec_with({"Root": {"type": "object", "properties": props}}), "cfg": {"all_schemas": True}, "mode": "client-mod", "expect_fields": {"Root": len(props)}}})
        for mode in ("merge", "preserve"):
            out.append({"op": "naming.scopes", "in": {"kind": "enum-" + mode, "spec": spec_with({"Root": {"type": "object", "properties": {"k": {"$ref": "#/components/schemas/E"}}}, "E": {"type": "string", "enum": names}}), "cfg": {"all_schemas": True, "enum_mode": mode}, "mode": "client-mod"}})
    # every list of up to 3 (thorough: 4) titles over {Foo, Foo2, Foo3}: a suffixed name may already be taken BEFORE the
    # plain name repeats (`Foo2, Foo, Foo`), which a per-base counter gets wrong and probing the used set gets right
    import itertools
    small = [list(t) for n in ((2, 3) if ctx.quick else (2, 3, 4)) for t in itertools.product(["Foo", "Foo2", "Foo3"], repeat=n)]
    for labels in LABELS + small:
        members = [{"type": "object", "title": t, "properties": {"p%d" % i: {"type": "string"}}} for i, t in enumerate(labels)]
        for kw in ("oneOf", "anyOf"):
            out.append({"op": "naming.scopes", "in": {"kind": "union-labels", "spec": spec_with({"Root": {kw: members}}), "cfg": {"all_schemas": True}, "mode": "client-mod", "expect_variants": {"Root": len(labels)}}})
    # union members WITHOUT a title: the label is inferred from the only (required) property's name, which need not be an
    # identifier (`@type`, `$id`, `1x`; finding F09-10, repaired)
    # (names that sanitise to `_` are the listed F09-3 and stay out)
    for props in (["@type", "$id", "1x"], ["a-b", "x y", "ok_name"], ["@type", "type", "Type"], ["1", "2", "3x"], ["@id", "@ID", "id"]):
        members = [{"type": "object", "properties": {p: {"type": "string"}}} for p in props]
        req_members = [{"type": "object", "required": [p], "properties": {p: {"type": "string"}, "zz": {"type": "integer"}}} for p in props]
        for kw, ms in (("oneOf", members), ("anyOf", members), ("oneOf", req_members)):
            out.append({"op": "naming.scopes", "in": {"kind": "union-labels", "spec": spec_with({"Root": {kw: ms}}), "cfg": {"all_schemas": True}, "mode": "client-mod", "expect_variants": {"Root": len(props)}}})
    # variants of a discriminated base are named after its children with the base's name stripped, plus a fall-back variant
    # named after the base's last word: `BillingEvent` + child `Event`; `Pet` + children `Cat`, `PetCat`
    R = "#/components/schemas/"
    for base, kids in (("BillingEvent", ["Event", "Other"]), ("Pet", ["Cat", "PetCat"]), ("Pet", ["Cat", "Dog"])):
        sch = {base: {"type": "object", "required": ["kind"], "properties": {"kind": {"type": "string"}, "name": {"type": "string"}},
                      "discriminator": {"propertyName": "kind", "mapping": {k.lower(): R + k for k in kids}}}}
        for i, k in enumerate(kids):
            sch[k] = {"allOf": [{"$ref": R + base}, {"type": "object", "properties": {"p%d" % i: {"type": "string"}}}]}
        sch["Root"] = {"type": "object", "properties": {"b": {"$ref": R + base}}}
        out.append({"op": "naming.scopes", "in": {"kind": "disc-variants", "spec": spec_with(sch), "cfg": {"all_schemas": True}, "mode": "client-mod", "expect_variants": {base: len(kids) + 1}}})
    # a property spelled like the member the generator adds for typed additionalProperties
    for pn in ("additional_properties", "additionalProperties"):
        out.append({"op": "naming.scopes", "in": {"kind": "props-addl", "spec": spec_with({"Root": {"type": "object", "properties": {pn: {"type": "string"}, "x": {"type": "string"}}, "additionalProperties": {"type": "integer"}}}),
                                                  "cfg": {"all_schemas": True}, "mode": "client-mod", "expect_fields": {"Root": 3}}})
    return out


# ---- names the generator derives itself vs. component keys that spell the same Rust name --------------------
DERIVED = [["request"], ["response"], ["request", "params"], ["response", "enum"], ["request", "query"], ["request", "path"],
           ["request", "header"], ["request", "body"]]
OP_IDS = ["createPet", "lookup_owner", "get", "list-items"]
ID_CLASHES = [["createPet", "create_pet"], ["create_pet_2", "create_pet2"], ["createPet", "create_pet", "create_pet2"], ["a_b", "aB", "a-b"], ["get", "Get"],
              ["x1", "x_1"], ["list", "list_2", "list2"], ["fetch", "fetchAll"], ["HTTPGet", "httpGet", "http_get"]]
HOOK_DOCS = [(["create"], ["create"]), (["pets_list", "pets_create"], ["on_pet_create", "on_pet_delete"]), (["create_pet_2"], ["create_pet2"]), (["list", "create"], ["list2", "make"]),
             (["pets_list", "pets_create"], ["pets_create", "pets_delete"]), (["api_a", "api_b"], ["a", "b"]), (["a", "b"], ["hook_a", "hook_b"]), (["list"], []), ([], ["ping"]),
             (["get_user", "get_team"], ["user", "team"]), (["user_changed"], ["userChanged", "user-changed"])]


def prepare(case):
    d = case["in"]
    if d.get("kind") != "opnames" or "spec" in d:
        return case
    import re
    from specgen import opnames_spec, opnames_entities
    ops, hooks, schemas = d.get("ops") or [], d.get("hooks") or [], d.get("schemas") or []
    assert ops or hooks
    assert all(o.get("id") and o.get("p", "").startswith("/") and o.get("m", "get") in ("get", "post", "put", "delete", "patch") for o in ops)
    assert all(o.get("id") and re.fullmatch(r"[a-z][A-Za-z0-9]*", o.get("name", "")) for o in hooks)
    assert len({(o["p"], o.get("m", "get")) for o in ops}) == len(ops) and len({(o["name"], o.get("m", "post")) for o in hooks}) == len(hooks)
    keys = [s.get("key") for s in schemas]
    assert all(k and re.search(r"[A-Za-z]", k) for k in keys) and len(set(keys)) == len(keys)
    assert all(("enum" in s and s["enum"]) or s.get("oneOf") or s.get("members") for s in schemas)
    for o in ops + hooks:
        for k in ("body", "resp"):
            v = o.get(k)
            assert v is None or v == "inline" or v in keys or (v.startswith("arr:") and v[4:] in keys)
        assert all(re.fullmatch(r"[A-Za-z][A-Za-z0-9_-]*", n) for n in (o.get("q") or []) + (o.get("h") or []))
    spec = opnames_spec(d)
    return {"op": case["op"], "in": dict(d, spec=spec, entities=opnames_entities(d), cfg=d.get("cfg") or {"all_schemas": True}, mode="client-mod", want=["registry"])}


def opnames_cases(ctx):
    from specgen import NAME_STYLES, words_of, spell
    r = ctx.rng
    out = []
    def case(ops, schemas, hooks=None, sub="derived"):
        d = {"kind": "opnames", "sub": sub, "ops": ops, "schemas": schemas}
        if hooks:
            d["hooks"] = hooks
        out.append({"op": "naming.scopes", "in": d})
    obj = lambda key, n=3: {"key": key, "members": ["m%d" % i for i in range(1, n + 1)]}
    full = lambda oid, **kw: dict({"id": oid, "m": "post", "p": "/things/{tid}", "q": ["dry_run"], "h": ["X-Trace"], "body": "inline", "resp": "inline"}, **kw)
    other = {"id": "zzOther", "m": "get", "p": "/zz", "q": ["f"], "resp": None}
    # (A) one component key that spells `<OpId><derived suffix>` in each style, used by the operation or by nobody
    combos = [(oid, sfx, st, use) for oid in OP_IDS for sfx in DERIVED for st in NAME_STYLES for use in (None, "body", "resp")]
    for oid, sfx, st, use in (r.sample(combos, 90) if ctx.quick else combos):
        key = spell(words_of(oid) + sfx, st)
        kw = {use: key} if use else {}
        case([full(oid, **kw), other], [obj(key)])
    # both the first choice and the fallback are taken
    for oid in OP_IDS:
        for a, b in ((["request"], ["request", "params"]), (["response"], ["response", "enum"])):
            for st1, st2 in ([("pascal", "snake"), ("camel", "pascal")] if ctx.quick else [(x, y) for x in NAME_STYLES for y in NAME_STYLES]):
                k1, k2 = spell(words_of(oid) + a, st1), spell(words_of(oid) + b, st2)
                if k1 != k2:
                    case([full(oid), other], [obj(k1), obj(k2, 2)], sub="fallback")
    # the demonstration document of the registry change: a schema per spelling next to an unrelated user of it
    case([full("createPet", body="createPetRequest", resp="create_pet_response"), {"id": "lookupOwner", "m": "get", "p": "/owners/{id}", "resp": "create_pet_response"}],
         [{"key": "createPetRequest", "members": ["pet_name", "pet_tag"]}, {"key": "create_pet_response", "members": ["pet_id", "pet_name"]}])
    # (B) `<Parent><Prop>` inline member types and union variant structs next to a component of that Rust name
    parents = ["Pet", "pet", "pet_store", "PetStore", "pet-store"]
    for parent in parents:
        for st in (r.sample(NAME_STYLES, 2) if ctx.quick else NAME_STYLES):
            for prop, kind in (("owner", "inline"), ("status", "inline_enum")):
                key = spell(words_of(parent) + [prop], st)
                if key == parent:
                    continue
                ps = {"key": parent, "members": ["name"]}
                ps[kind] = {prop: ["street", "zip"]} if kind == "inline" else {prop: ["on", "off"]}
                case([full("getIt", resp=parent), other], [ps, obj(key)], sub="inline")
            key = spell(words_of(parent) + ["circle"], st)
            case([full("getIt", resp=parent), other], [{"key": parent, "oneOf": [["Circle", ["r"]], ["Square", ["side"]]]}, obj(key)], sub="variant")
    # (C) operation ids that differ as written but come close (or equal) as snake_case ids / PascalCase type names
    for ids in ID_CLASHES:
        case([{"id": x, "m": "get", "p": "/p%d" % i, "q": ["f%d" % i], "resp": None} for i, x in enumerate(ids)], [], sub="ids")
        if len(ids) >= 2:
            case([{"id": ids[0], "m": "get", "p": "/p0", "q": ["f"], "resp": None}], [], hooks=[{"id": x, "name": "hook%d" % i, "m": "post", "h": ["X-Sig"], "body": "inline", "resp": None} for i, x in enumerate(ids[1:])], sub="ids-hooks")
    # (D) `webhooks` next to `paths`
    for hi, wi in HOOK_DOCS:
        for schemas in ([], [obj("Pet")]):
            case([{"id": x, "m": "get" if i % 2 == 0 else "post", "p": "/p%d" % (i // 2), "q": ["f"], "resp": "Pet" if schemas and i == 0 else None} for i, x in enumerate(hi)], schemas,
                 hooks=[{"id": x, "name": "hook%d" % i, "m": "post", "h": ["X-Sig"], "body": ("Pet" if schemas else "inline"), "resp": None} for i, x in enumerate(wi)], sub="hooks")
    verbs = ["list", "create", "delete", "get", "update"]
    for _ in range(30 if ctx.quick else 600):
        pre_h, pre_w = r.choice(["", "pets_", "api_pets_", "pet_"]), r.choice(["", "on_pet_", "on_", "pets_", "hook_"])
        suf_h, suf_w = r.choice(["", "", "_v1"]), r.choice(["", "", "_event", "_v1"])
        hi = [pre_h + v + suf_h for v in r.sample(verbs, r.randint(1, 3))]
        wi = [pre_w + v + suf_w for v in r.sample(verbs, r.randint(1, 3))]
        case([{"id": x, "m": "get", "p": "/p%d" % i, "q": ["f"], "resp": None} for i, x in enumerate(hi)], [],
             hooks=[{"id": x, "name": "hook%d" % i, "m": "post", "h": ["X-Sig"], "body": "inline", "resp": None} for i, x in enumerate(wi)], sub="hooks-random")
    return out


# ---- pre-computed type names (naming/name_index.rs vs Model/NameIndex.lean): one key, and the whole walk -----------------
NI_PARENTS = ["Job", "JobRun", "JobRunS", "Org", "User", "Tenant", "Project", "A", "Ab", "Settings", "JobRunState", "JobRunState2", "Type", "Status"]
NI_PROPS = ["state", "run_state", "settings", "s_tate", "id", "type", "status", "x", "tate", "run", "data", "meta_data", "object", "enum"]


def best_name_cases(ctx):
    r = ctx.rng
    out = []
    names = ["JobRunState", "JobRunState2", "OrgSettings", "UserSettings", "TenantSettings", "ProjectSettings", "AType", "BType", "AbId", "CdId", "Xstatus", "Ystatus",
             "FooStruct", "BarStruct", "XEnum", "YEnum", "AObject", "BObject", "ASelf", "BSelf", "Settings", "Settings2", "A", "Éa", "ÉaTag", "ObTag", "Tag", "TagX", "aTag", "bTag", "X1Data", "Y1Data", "Data", "ata", "Data2", "Data3"]
    fixed = [([["OrgSettings", False], ["UserSettings", False]], ["Settings"]), ([["AType", False], ["BType", False]], []), ([["ASelf", False], ["BSelf", False]], []),
             ([["X", False]], ["X", "X2", "X3"]), ([["Pet", True], ["Animal", False]], ["Pet"]), ([["B", True], ["A", True]], []), ([], ["UnknownType"]),
             ([["ÉaTag", False], ["ObTag", False]], []), ([["aTag", False], ["bTag", False]], []), ([["X1Data", False], ["Y1Data", False]], ["Data", "Data2"])]
    for c, u in fixed:
        out.append({"op": "cache.best_name", "in": {"cands": c, "used": u}})
    for _ in range(1500 if ctx.quick else 30000):
        k = r.choice([1, 1, 2, 2, 3, 4])
        c = [[r.choice(names), r.random() < 0.12] for _ in range(k)]
        u = r.sample(names, r.randint(0, 6))
        out.append({"op": "cache.best_name", "in": {"cands": c, "used": u}})
    return out


def ni_prepare(case):
    """derived fields of a cache.name_scan case from its primary data `triples` = [[parent, prop, shape index], …]
    (the last triple of one (parent, prop) wins, as in a JSON object)"""
    d = case["in"]
    if case["op"] != "cache.name_scan" or "triples" not in d:
        return case
    import re
    assert all(isinstance(t, list) and len(t) == 3 and re.fullmatch(r"[A-Z][A-Za-z0-9]*", str(t[0])) and re.fullmatch(r"[a-z][a-z_]*[a-z]|[a-z]", str(t[1])) and isinstance(t[2], int) for t in d["triples"])
    at = {}
    for parent, prop, si in d["triples"]:
        at[(parent, prop)] = {"type": "object", "properties": {"m%d" % si: {"type": "integer"}}}
    comps = {}
    for (parent, prop), sch in at.items():
        comps.setdefault(parent, {"type": "object", "properties": {}})["properties"][prop] = sch
    sites = [{"parent": parent, "prop": prop, "schema": sch} for (parent, prop), sch in at.items()]
    return {"op": case["op"], "in": {"schemas": comps, "sites": sites, "components": sorted(comps)}}


def name_scan_cases(ctx):
    r = ctx.rng
    fixed = [[["Job", "run_state", 0], ["JobRun", "state", 1]], [["Org", "settings", 0], ["User", "settings", 0]], [["Tenant", "settings", 0], ["Project", "settings", 0]],
             [["A", "type", 0], ["Ab", "type", 0]], [["Job", "run_state", 0], ["JobRun", "state", 1], ["JobRunS", "tate", 2]], [["Org", "settings", 0], ["User", "settings", 0], ["Settings", "x", 1]]]
    out = [{"op": "cache.name_scan", "in": {"triples": f}} for f in fixed]
    for _ in range(400 if ctx.quick else 8000):
        n = r.randint(1, 6)
        out.append({"op": "cache.name_scan", "in": {"triples": [[r.choice(NI_PARENTS), r.choice(NI_PROPS), r.randint(0, 3)] for _ in range(n)]}})
    return out


def run(ctx):
    ok_t = ctx.translate(["naming"])
    proofs_ok, driver_ok = ctx.build_lean(["Oas3Model.Props.C09"])
    if proofs_ok:
        ctx.audit("Oas3Model.Props.C09")
        if not ctx.quick:
            ctx.leanchecker("Oas3Model.Props.C09")
    if driver_ok and ctx.build_harness(["k_naming", "k_gen", "k_cache"]):
        corpus = vlib_corpus(ctx)
        ctx.prepare = ni_prepare
        ctx.classify(ctx.evaluate(best_name_cases(ctx) + name_scan_cases(ctx)))
        ctx.prepare = None
        sc = scope_cases(ctx)
        ctx.classify(ctx.evaluate(sc), shrink=False, tie="E")
        ctx.prepare = prepare
        on = [c for c in corpus if c["op"] == "naming.scopes"] + opnames_cases(ctx)
        corpus = [c for c in corpus if c["op"] != "naming.scopes"]
        ctx.classify(ctx.evaluate(on, tie="E"), shrink=True, tie="E")
        ctx.prepare = None
        allc = corpus + cases(ctx)
        B = 20000
        for i in range(0, len(allc), B):
            ctx.classify(ctx.evaluate(allc[i:i + B]))
            if len(ctx.violations) >= 3:
                break
    return ctx.finish(
        checker_cmd="lake build Oas3Model.Props.C09 && #print axioms on every theorem" + ("" if ctx.quick else " && leanchecker Oas3Model.Props.C09"),
        trusted_base=vlib.TRUSTED_BASE + ["any_ascii (parameter tr of every theorem; real table shipped per case)", "inflections to_snake_case/to_constant_case modelled on ASCII", "Rust reference keyword list (hand-written spec table rustKeywords)"],
        rule="bounded-exhaustive strings over the 15-symbol alphabet of the property's quantifier (len<=3 quick, <=5 thorough, plus r#-prefixed) through each of the 3 sanitisers + all keywords/reserved names + random word mixes + ensure_unique states; E (naming.scopes): collision classes in struct fields / enum variants / union labels, and documents whose component keys (6 spellings) equal the names the generator derives itself (<Op>Request/Response/RequestParams/ResponseEnum/RequestQuery|Path|Header|Body, <Parent><Prop>, union variant structs), near-equal operation ids, webhooks next to paths - judged on module items, client methods and registry rows; non-trivial = reaches a branch other than 'plain' (raw, neg, kw, unicode, empty, digit, probe); distinct by (op,input) hash",
        assumptions=["any_ascii is a per-character map that is the identity on ASCII", "sanitised strings are ASCII, where inflections' Unicode case predicates coincide with the ASCII ones"])


def vlib_corpus(ctx):
    import os
    p = os.path.join(vlib.VERIF, "corpus", f"{ctx.prop}.jsonl")
    out = []
    if os.path.exists(p):
        for l in open(p, encoding="utf-8"):
            if l.strip():
                out.append(json.loads(l))
    return out
