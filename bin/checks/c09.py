"""C09 — every spec name becomes a valid, collision-free Rust identifier."""
import itertools, json
import vlib

ALPHA = ["a", "b", "A", "B", "1", "_", "-", " ", ".", "@", "{", "#", "é", "中", "😀"]
KEYWORDS = ["as","break","const","continue","crate","else","enum","extern","false","fn","for","if","impl","in","let","loop","match","mod","move","mut","pub","ref","return","self","Self","static","struct","super","trait","true","type","unsafe","use","where","while","async","await","dyn","abstract","become","box","do","final","macro","override","priv","typeof","unsized","virtual","yield","try","gen","union","macro_rules","_",
            "Clone","Copy","Display","Option","Result","Send","Sync","Type","Vec","String","Box","Default","Debug","Some","None","Ok","Err","Self_","r#type","r#Self","r#crate","r#1","r#","r#a-b","-self","-Self","-1","--","build","builder"]
SAN = ["naming.field", "naming.type", "naming.const"]


def strings_upto(n):
    for k in range(n + 1):
        for t in itertools.product(ALPHA, repeat=k):
            yield "".join(t)


def cases(ctx):
    out = []
    for w in KEYWORDS + [w.upper() for w in KEYWORDS] + [w.capitalize() for w in KEYWORDS]:
        for op in SAN:
            out.append({"op": op, "in": {"s": w}})
    maxlen = 3 if ctx.quick else 5
    for s in strings_upto(maxlen):
        for op in SAN:
            out.append({"op": op, "in": {"s": s}})
        if len(s) <= maxlen - 1:
            for op in SAN:
                out.append({"op": op, "in": {"s": "r#" + s}})
    r = ctx.rng
    words = ["foo", "Bar", "HTTP", "v2", "XMLParser", "user_id", "type", "self", "Self", "crate", "Vec", "iOS", "éclair", "日本", "ß", "İ", "ǅ", "ﬁ", "K", "́", "​", "\x00", "\n", "\"", "\\", "*/", "$ref", "@odata.type", "x-y", "a.b", "  ", "__", "9", "-", "--x", "r#"]
    n = 4000 if ctx.quick else 60000
    for _ in range(n):
        k = r.randint(1, 4)
        s = "".join(r.choice(words) if r.random() < 0.6 else r.choice(ALPHA) for _ in range(k))
        out.append({"op": r.choice(SAN), "in": {"s": s}})
    # uniqueness helpers
    for _ in range(600 if ctx.quick else 6000):
        base = r.choice(["a", "x", "get", "a2", "x_2", ""])
        used = set()
        for _ in range(r.randint(0, 8)):
            used.add(r.choice([base, base + str(r.randint(2, 6)), base + "_" + str(r.randint(2, 6)), "b", base + "1", base + "02"]))
        op = r.choice(["naming.ensure_unique", "naming.ensure_unique_snake"])
        out.append({"op": op, "in": {"base": base, "used": sorted(used)}})
    return out


COLLIDE = [["foo-bar", "foo_bar"], ["fooBar", "foo_bar", "FooBar"], ["a", "A"], ["x", "X", "x "], ["id", "Id", "ID"], ["user-id", "userId", "user_id", "USER_ID"], ["type", "Type"], ["1a", "_1a"], ["a.b", "a-b", "a b"]]
LABELS = [["Figure", "Figure", "Figure"], ["Foo", "Foo", "Foo2"], ["Item", "Item", "Item", "Item"], ["A", "a", "A"], ["Box", "Vec", "Box"], ["x y", "x-y", "xY"]]


def scope_cases(ctx):
    from specgen import base_spec
    out = []
    def spec_with(schemas):
        s = base_spec()
        s["components"]["schemas"].update(schemas)
        s["paths"]["/r"] = {"get": {"operationId": "r", "responses": {"200": {"description": "ok", "content": {"application/json": {"schema": {"$ref": "#/components/schemas/Root"}}}}}}}
        return s
    for names in COLLIDE:
        props = {n: {"type": "string"} for n in names}
        out.append({"op": "naming.scopes", "in": {"kind": "props", "spec": spec_with({"Root": {"type": "object", "properties": props}}), "cfg": {"all_schemas": True}, "mode": "client-mod", "expect_fields": {"Root": len(props)}}})
        for mode in ("merge", "preserve"):
            out.append({"op": "naming.scopes", "in": {"kind": "enum-" + mode, "spec": spec_with({"Root": {"type": "object", "properties": {"k": {"$ref": "#/components/schemas/E"}}}, "E": {"type": "string", "enum": names}}), "cfg": {"all_schemas": True, "enum_mode": mode}, "mode": "client-mod"}})
    for labels in LABELS:
        members = [{"type": "object", "title": t, "properties": {"p%d" % i: {"type": "string"}}} for i, t in enumerate(labels)]
        for kw in ("oneOf", "anyOf"):
            out.append({"op": "naming.scopes", "in": {"kind": "union-labels", "spec": spec_with({"Root": {kw: members}}), "cfg": {"all_schemas": True}, "mode": "client-mod", "expect_variants": {"Root": len(labels)}}})
    return out


def run(ctx):
    ok_t = ctx.translate(["naming"])
    proofs_ok, driver_ok = ctx.build_lean(["Oas3Model.Props.C09"])
    if proofs_ok:
        ctx.audit("Oas3Model.Props.C09")
        if not ctx.quick:
            ctx.leanchecker("Oas3Model.Props.C09")
    if driver_ok and ctx.build_harness(["k_naming", "k_gen"]):
        corpus = vlib_corpus(ctx)
        sc = scope_cases(ctx)
        ctx.classify(ctx.evaluate(sc), shrink=False, tie="E")
        allc = corpus + cases(ctx)
        B = 20000
        for i in range(0, len(allc), B):
            ctx.classify(ctx.evaluate(allc[i:i + B]))
            if len(ctx.violations) >= 3:
                break
    return ctx.finish(
        checker_cmd="lake build Oas3Model.Props.C09 && #print axioms on every theorem" + ("" if ctx.quick else " && leanchecker Oas3Model.Props.C09"),
        trusted_base=vlib.TRUSTED_BASE + ["any_ascii (parameter tr of every theorem; real table shipped per case)", "inflections to_snake_case/to_constant_case modelled on ASCII", "Rust reference keyword list (hand-written spec table rustKeywords)"],
        rule="bounded-exhaustive strings over the 15-symbol alphabet of the property's quantifier (len<=3 quick, <=5 thorough, plus r#-prefixed) through each of the 3 sanitisers + all keywords/reserved names + random word mixes + ensure_unique states; non-trivial = reaches a branch other than 'plain' (raw, neg, kw, unicode, empty, digit, probe); distinct by (op,input) hash",
        assumptions=["any_ascii is a per-character map that is the identity on ASCII", "sanitised strings are ASCII, where inflections' Unicode case predicates coincide with the ASCII ones"])


def vlib_corpus(ctx):
    import os
    p = os.path.join(vlib.VERIF, "corpus", f"{ctx.prop}.jsonl")
    out = []
    if os.path.exists(p):
        for l in open(p, encoding="utf-8"):
            if l.strip():
                out.append(json.loads(l))
    return out
