"""C01 — generated code compiles against its documented dependencies (partial by nature: rustc is the oracle of
tie A; the closure obligations that decide it are modelled and proved)."""
import itertools, json, os, re
import vlib, featgen
from checks.c09 import vlib_corpus

# --------------------------------------------------------------------------------------------------------------
# K: synthetic type graphs through the real PostprocessOutput::new
KINDS = ["schema", "schema", "schema", "schema", "enum", "alias", "request", "query", "path", "header"]


def k_graph_case(nodes, seeds, target):
    return {"op": "comp.post", "in": {"target": target, "nodes": nodes, "seeds": seeds}}


def k_cases(ctx):
    r = ctx.rng
    out = []
    # bounded-exhaustive: two schema structs, every edge set (absent / plain / through a map, incl. self loops),
    # every seeding (absent / request / response / both) and both targets
    names = ["A", "B"]
    pairs = [(a, b) for a in names for b in names]
    seedings = [None, (True, False), (False, True), (True, True)]
    for edges in itertools.product([None, "plain", "map", "arr"], repeat=len(pairs)):
        for sa, sb in itertools.product(seedings, repeat=2):
            if ctx.quick and r.random() < 0.5:
                continue
            for target in ("client", "server"):
                nodes = []
                for n in names:
                    deps = []
                    for (a, b), e in zip(pairs, edges):
                        if a == n and e:
                            deps.append(b if e == "plain" else {e: b})
                    nodes.append({"name": n, "kind": "schema", "deps": deps, "attrs": n == "B"})
                seeds = [[n, s[0], s[1]] for n, s in zip(names, (sa, sb)) if s]
                out.append(k_graph_case(nodes, seeds, target))
    # random graphs: 1-7 types of every kind, plain / map / vec members, cycles, any seeding
    n = 1500 if ctx.quick else 20000
    for _ in range(n):
        k = r.randint(1, 7)
        nm = ["T%d" % i for i in range(k)]
        nodes = []
        kind_of = {name: r.choice(KINDS) for name in nm}
        data = [x for x in nm if kind_of[x] in ("schema", "enum", "alias")]
        for i, name in enumerate(nm):
            kind = kind_of[name]
            nd = r.choice([0, 1, 1, 2, 3]) if kind != "alias" else 1
            deps = []
            # the shapes the converter builds: a request struct holds parameter structs and body types; parameter
            # structs, schema structs, enums and aliases hold data types only
            pool = data + ([x for x in nm if kind_of[x] in ("path", "query", "header")] if kind == "request" else [])
            for _ in range(nd if pool else 0):
                t = r.choice(pool)
                x = r.random()
                deps.append({"map": t} if x < 0.15 else {"arr": t} if x < 0.3 else t)
            node = {"name": name, "kind": kind, "deps": deps}
            if kind not in ("enum", "alias"):
                node["attrs"] = r.random() < 0.3
            if kind == "enum":
                node["ci"] = r.random() < 0.2
            nodes.append(node)
        seeds = []
        for name in nm:
            x = r.random()
            if x < 0.5:
                # request / parameter structs are only ever recorded as request types
                seeds.append([name] + (r.choice([[True, False], [False, True], [True, True]]) if kind_of[name] in ("schema", "enum", "alias") else [True, False]))
        if r.random() < 0.1:
            seeds.append(["Ghost", True, False])      # a seed that names no node
        out.append(k_graph_case(nodes, sorted(seeds), r.choice(["client", "server"])))
    return out


# --------------------------------------------------------------------------------------------------------------
# E / A: the whole generator on feature-grammar specs x the flag lattice
S = featgen.ref
OBJ = lambda props, req=None: dict({"type": "object", "properties": props}, **({"required": req} if req else {}))

FEATURES = {
    # name: (spec, note) — single-feature documents: the witnesses of the classes and a few clean ones
    "plain": featgen.wrap({"A": OBJ({"x": {"type": "string"}, "b": S("B")}), "B": OBJ({"n": {"type": "integer"}})}, body="A", resp="A"),
    "map-edge": featgen.wrap({"A": OBJ({"m": {"type": "object", "additionalProperties": S("B")}}), "B": OBJ({"n": {"type": "integer"}}), "C": OBJ({"b": S("B")})}, body="A", resp="C"),
    "map-only-ref": featgen.wrap({"A": OBJ({"m": {"type": "object", "additionalProperties": S("B")}}), "B": OBJ({"n": {"type": "integer"}})}, body="A"),
    # B is response-only (C), A request-only: the member `l` is an array whose items are the ARRAY ALIAS E
    "nested-array-edge": featgen.wrap({"A": OBJ({"l": {"type": "array", "items": S("E")}}), "B": OBJ({"n": {"type": "integer"}}), "C": OBJ({"b": S("B")}),
                                       "E": {"type": "array", "items": S("B")}}, body="A", resp="C"),
    "required-header-default": featgen.wrap({"A": OBJ({"x": {"type": "string"}})}, resp="A", method="get",
                                            params=[{"name": "X-Mode", "in": "header", "required": True, "schema": {"type": "string", "default": "fast"}}]),
    # Item is a request body of one operation and the NULLABLE-WRAPPED response of another
    "nullable-response": {"openapi": "3.1.0", "info": {"title": "t", "version": "1"}, "components": {"schemas": {"Item": OBJ({"x": {"type": "string"}})}},
                          "paths": {"/a": {"get": {"operationId": "getA", "responses": {"200": {"description": "ok", "content": {"application/json": {"schema": {"oneOf": [S("Item"), {"type": "null"}]}}}}}}},
                                    "/b": {"post": {"operationId": "postB", "requestBody": {"required": True, "content": {"application/json": {"schema": S("Item")}}}, "responses": {"204": {"description": "n"}}}}}},
    # the request body is an array of the array alias Host; Key is otherwise response-only
    "nested-array-body": featgen.wrap({"Key": OBJ({"n": {"type": "integer"}}), "Host": {"type": "array", "items": S("Key")}}, body={"type": "array", "items": S("Host")}, resp="Host"),
    # Item is the NULLABLE-WRAPPED request body of one operation and a response of another
    "nullable-body": {"openapi": "3.1.0", "info": {"title": "t", "version": "1"}, "components": {"schemas": {"Item": OBJ({"x": {"type": "string"}})}},
                      "paths": {"/a": {"post": {"operationId": "postA", "requestBody": {"required": True, "content": {"application/json": {"schema": {"anyOf": [S("Item"), {"type": "null"}]}}}}, "responses": {"204": {"description": "n"}}}},
                                "/b": {"get": {"operationId": "getB", "responses": {"200": {"description": "ok", "content": {"application/json": {"schema": S("Item")}}}}}}}},
    "param-clash": featgen.wrap({"A": OBJ({"x": {"type": "string"}})}, resp="A", method="get",
                                params=[{"name": "id", "in": "query", "schema": {"type": "string"}}, {"name": "id", "in": "header", "schema": {"type": "integer"}}]),
    "sep-int": featgen.wrap({"A": OBJ({"x": {"type": "string"}})}, resp="A", method="get",
                            params=[{"name": "ids", "in": "query", "explode": False, "schema": {"type": "array", "items": {"type": "integer"}}}]),
    "sep-str": featgen.wrap({"A": OBJ({"x": {"type": "string"}})}, resp="A", method="get",
                            params=[{"name": "ids", "in": "query", "explode": False, "schema": {"type": "array", "items": {"type": "string"}}}]),
    "event-stream": featgen.wrap({"A": OBJ({"x": {"type": "string"}})}, resp="A", method="get", resp_ct="text/event-stream"),
    "length-vec": featgen.wrap({"A": OBJ({"l": {"type": "array", "minItems": 1, "items": S("B")}}), "B": OBJ({"n": {"type": "integer"}})}, body="A"),
    "binary-body": featgen.wrap({"A": OBJ({"x": {"type": "string"}})}, body={"type": "string", "format": "binary"}, body_ct="application/octet-stream", resp="A"),
    "optional-text-body": {"openapi": "3.1.0", "info": {"title": "t", "version": "1"}, "components": {"schemas": {}},
                           "paths": {"/op": {"post": {"operationId": "op", "requestBody": {"content": {"text/plain": {"schema": {"type": "string"}}}}, "responses": {"200": {"description": "ok"}}}}}},
    "duration-header": featgen.wrap({"A": OBJ({"x": {"type": "string"}})}, resp="A", method="get", params=[{"name": "ttl", "in": "header", "schema": {"type": "string", "format": "duration"}}]),
    "alias-cycle": featgen.wrap({"A": OBJ({"g": S("Grp")}), "Cfg": {"type": "object", "additionalProperties": S("Grp")}, "Grp": {"type": "array", "items": S("Cfg")}}, body="A", resp="A"),
    "cycle": featgen.wrap({"A": OBJ({"a": S("A"), "l": {"type": "array", "items": S("A")}})}, body="A", resp="A"),
    "union": featgen.wrap({"A": OBJ({"x": {"type": "string"}}), "B": OBJ({"n": {"type": "integer"}}), "U": {"oneOf": [S("A"), S("B")]}}, body="U", resp="U"),
    # unions whose member leads back to the union: the variant is `V(Box<T>)`, and so must the helper constructors' payloads be
    "union-cycle": featgen.wrap({"Literal": OBJ({"v": {"type": "integer"}}), "Negation": OBJ({"operand": S("Expr")}),
                                 "Pair": OBJ({"left": S("Expr"), "right": S("Expr")}, ["left"]),
                                 "Expr": {"oneOf": [S("Literal"), S("Negation"), S("Pair")]}}, body="Expr", resp="Expr"),
    "union-cycle-any": featgen.wrap({"Leaf": OBJ({"name": {"type": "string"}}, ["name"]), "Node": OBJ({"kids": {"type": "array", "items": S("Tree")}, "first": S("Tree")}),
                                     "Tree": {"anyOf": [S("Leaf"), S("Node")]}}, body="Tree", resp="Tree"),
    # enum-typed parameters in every location (the server builds header members with `str::parse`)
    "enum-params": featgen.wrap({"A": OBJ({"x": {"type": "string"}})}, resp="A", method="get",
                                params=[{"name": "X-Mode", "in": "header", "required": True, "schema": {"type": "string", "enum": ["fast", "Slow"]}},
                                        {"name": "X-Level", "in": "header", "schema": {"type": "string", "enum": ["lo", "HI", "Mid-1"]}},
                                        {"name": "X-RateLimit-Window", "in": "header", "schema": {"type": "integer"}}, {"name": "ETag", "in": "header", "schema": {"type": "string"}},
                                        {"name": "xApiKey", "in": "header", "required": True, "schema": {"type": "string"}}, {"name": "x_tenant.id", "in": "header", "schema": {"type": "string"}},
                                        {"name": "sort", "in": "query", "schema": {"type": "string", "enum": ["asc", "Desc"]}},
                                        {"name": "kind", "in": "path", "required": True, "schema": {"type": "string", "enum": ["cat", "Dog"]}}]),
    # the FORMAT vocabulary (standard names and the spellings people write instead) on constrained, required strings: the type
    # mapping and the validation extraction each decide on the format with a list of their own
    "format-vocabulary": featgen.wrap({"A": OBJ({("f%d" % i): {"type": "string", "format": fmt, "minLength": 1, "maxLength": 40} for i, fmt in enumerate(
        ["date-time", "date", "time", "duration", "uuid", "byte", "binary", "email", "uri", "url", "hostname", "ipv4", "ipv6", "password", "datetime", "date_time", "DateTime", "dateTime",
         "timestamp", "int64", "decimal", "uuid4", "UUID", "date-time ", "", "iso-date-time", "unix-time", "float", "double", "int32", "char", "regex", "json-pointer"])},
        ["f%d" % i for i in range(33)])}, body="A", resp="A"),
    "format-vocabulary-opt": featgen.wrap({"A": OBJ({("g%d" % i): {"type": ["string", "null"], "format": fmt, "pattern": "^.+$"} for i, fmt in enumerate(
        ["date-time", "uuid", "datetime", "date_time", "DateTime", "timestamp", "int64", "uuid4", "date", "time"])})}, body="A", resp="A"),
    # operation ids with a common affix: after trimming, the server handlers are called like HTTP verbs (`get`, `delete`)
    "verb-named-handlers": {"openapi": "3.1.0", "info": {"title": "t", "version": "1"}, "components": {"schemas": {"Thing": OBJ({"x": {"type": "string"}})}},
                            "paths": {"/things": {"get": {"operationId": "getThing", "responses": {"200": {"description": "ok", "content": {"application/json": {"schema": S("Thing")}}}}},
                                                  "post": {"operationId": "postThing", "requestBody": {"required": True, "content": {"application/json": {"schema": S("Thing")}}}, "responses": {"204": {"description": "ok"}}}},
                                      "/things/{id}": {"delete": {"operationId": "deleteThing", "parameters": [{"name": "id", "in": "path", "required": True, "schema": {"type": "string"}}], "responses": {"204": {"description": "ok"}}}}}},
    # an inline object that is structurally IDENTICAL to a component schema no operation reaches (bundled / partly dereferenced
    # documents have such twins): under the default scope the twin is not emitted, so the inline one needs a type of its own
    "inline-twin-of-orphan": featgen.wrap({"Address": OBJ({"street": {"type": "string"}, "zip": {"type": "string"}}, ["street"]),
                                           "A": OBJ({"billing": OBJ({"street": {"type": "string"}, "zip": {"type": "string"}}, ["street"]),
                                                     "stops": {"type": "array", "items": OBJ({"street": {"type": "string"}, "zip": {"type": "string"}}, ["street"])}})},
                                          body="A", resp="A"),
    # OPTIONAL members named like the locals of the Validate derive's expansion (`errors`, `entry`) that carry a validator
    "validator-local-names": featgen.wrap({"Detail": OBJ({"code": {"type": "string", "minLength": 1}}, ["code"]),
                                           "A": OBJ({"errors": {"type": "array", "minItems": 1, "items": {"type": "string"}}, "entry": S("Detail"),
                                                     "field": {"type": "string", "maxLength": 9}, "result": S("Detail")}),
                                           "B": OBJ({"errors": {"type": "array", "minItems": 1, "items": {"type": "string"}}, "entry": S("Detail")}, ["errors", "entry"])},
                                          body="A", resp="B"),
    # helper constructors of unions / Known-Other enums whose member names differ only in case or separators
    "helper-name-collisions": featgen.wrap({"Region": {"anyOf": [{"type": "string", "enum": ["eu-west", "EU-WEST", "eu_west", "us"]}, {"type": "string"}]},
                                            "Kind": {"anyOf": [{"type": "string", "enum": ["a-b", "a_b", "A B"]}, {"type": "string"}]},
                                            "A": OBJ({"r": S("Region"), "k": S("Kind")})}, body="A", resp="A"),
}
# features whose interesting cell is a non-default enum mode
ENUM_MODES = ("merge", "preserve", "relaxed")


def prepare(case):
    if case["op"] in ("comp.gen",):
        i = dict(case["in"])
        i["schemas"] = sorted((i["spec"].get("components") or {}).get("schemas") or {})
        # component schemas that some `$ref` of the document points to
        refd = set()
        def walk(v):
            if isinstance(v, dict):
                t = v.get("$ref")
                if isinstance(t, str) and t.startswith("#/components/schemas/"):
                    refd.add(t.rsplit("/", 1)[1])
                for x in v.values():
                    walk(x)
            elif isinstance(v, list):
                for x in v:
                    walk(x)
        walk(i["spec"])
        i["refd"] = sorted(refd)
        return {"op": case["op"], "in": i}
    return case


def gen_case(spec, mode, cfg, code=False):
    c = {"op": "comp.gen", "in": {"spec": spec, "mode": mode, "cfg": cfg}}
    if code:
        c["in"]["want"] = ["code"]
    return c


def lattice_sample(r, n):
    cfgs = featgen.all_cfgs()
    return r.sample(cfgs, n) if n < len(cfgs) else cfgs


def eff_explode(kw):
    """`explode.unwrap_or(style is None or form)` as converter/parameters.rs computes it"""
    return kw["explode"] if kw.get("explode") is not None else kw.get("style") in (None, "form")


def array_e_cases(ctx):
    """the ARRAY PARAMETER dimension, bounded-exhaustive: one document per point (WF is judged per point)"""
    out = []
    for i, pt in enumerate(featgen.array_param_space()):
        modes = ["client-mod", "server-mod"] if not ctx.quick else [["client-mod", "server-mod"][i % 2]]
        for m in modes:
            out.append(gen_case(featgen.array_param_spec([pt]), m, {"vis": "public", "enum_mode": "merge", "builders": i % 3 == 0}))
    return out


def array_a_cases(ctx):
    """the same points packed into few documents for rustc: one operation per (location, item type, level,
    separator applied or not), so that a shape that compiles is never in one struct with a shape that does not"""
    groups = {}
    for pt in featgen.array_param_space():
        key, loc, level, kw = pt
        if ctx.quick and level == "path":
            continue
        # required header parameters with a default never compile (KnownRequiredHeaderDefault): their own group
        split = (not eff_explode(kw)) if loc == "query" else (kw["required"] and kw["default"])
        groups.setdefault((loc, kw["items"], level, split), []).append(pt)
    out = []
    for g, pts in sorted(groups.items(), key=lambda kv: str(kv[0])):
        for m in ("client-mod", "server-mod"):
            out.append(gen_case(featgen.array_param_spec(pts), m, {"vis": "public", "enum_mode": "merge"}, code=True))
    return out


def e_cases(ctx):
    r = ctx.rng
    out = []
    # the flag lattice (all 1152 combinations in the thorough tier) on single-feature documents
    per = 48 if ctx.quick else 1152
    feats = ["plain", "map-edge", "param-clash"] if ctx.quick else ["plain", "map-edge", "param-clash", "union"]
    for f in feats:
        for mode, cfg in lattice_sample(r, per):
            out.append(gen_case(FEATURES[f], mode, cfg))
    for f in FEATURES:
        for mode in featgen.MODES:
            for em in ENUM_MODES:
                out.append(gen_case(FEATURES[f], mode, {"vis": "public", "enum_mode": em}))
            out.append(gen_case(FEATURES[f], mode, {"vis": "crate", "enum_mode": "relaxed", "no_helpers": True}))
    out += array_e_cases(ctx)
    # random documents of the feature grammar x random flags
    for _ in range(250 if ctx.quick else 2000):
        mode, cfg = featgen.rand_cfg(r)
        out.append(gen_case(featgen.rand_spec(r), mode, cfg))
    return out


NAME_PATTERNS = [r"cannot find (?:type|struct, variant or union type|trait|value|derive macro|macro) `([^`]*)`", r"use of undeclared type `([^`]*)`",
                 r"use of unresolved module or unlinked crate `([^`]*)`", r"the trait bound `([^`]*)` is not satisfied", r"`([^`]*)`"]


def err_digest(e):
    msg = e["msg"]
    name, trait = "", ""
    for p in NAME_PATTERNS:
        m = re.search(p, msg)
        if m:
            name = m.group(1)
            break
    if ": " in name and "trait bound" in msg:
        ty, tr = name.split(": ", 1)
        name = ty
        trait = re.sub(r"<.*", "", tr).split("::")[-1]
    name = re.sub(r"<.*", "", name).split("::")[-1].strip("&' ")
    es = re.search(r"`from_response` exists for struct `EventStream<([^`]*)>`, but its trait bounds were not satisfied", msg)
    if es:
        name, trait = re.sub(r"<.*", "", es.group(1)).split("::")[-1], "from_response"      # the payload type whose bound is missing
    hm = re.search(r"\{(\w+)::<", msg)
    if hm and "Handler<" in msg:
        name = hm.group(1)          # the handler function a `Handler<_, _>` bound is about
    return {"code": e["code"] or msg[:40], "file": e["file"], "ikind": e["item"][0] if e["item"] else "", "iname": e["item"][1] if e["item"] else "",
            "name": name, "trait": trait, "msg": msg[:160], "text": e["text"][:120]}


def par_impl(ctx, sent, workers=8):
    """the generator runs are independent: spread a batch over several harness processes"""
    from concurrent.futures import ThreadPoolExecutor
    if len(sent) < 64:
        return ctx.run_impl(sent)
    n = (len(sent) + workers - 1) // workers
    parts = [sent[i:i + n] for i in range(0, len(sent), n)]
    with ThreadPoolExecutor(max_workers=workers) as ex:
        res = list(ex.map(ctx.run_impl, parts))
    return [t for part in res for t in part]


def arena(ctx, n_random, per_round=120):
    """tie A: emitted files -> modules of the arena crate -> rustc; every module is judged by the Lean driver."""
    from checks import c01_arena
    r = ctx.rng
    cases = []
    for f in FEATURES:
        for mode in (["client-mod", "server-mod"] if ctx.quick else featgen.MODES):
            cases.append(gen_case(FEATURES[f], mode, {"vis": "public", "enum_mode": "merge", "builders": f == "param-clash"}, code=True))
    cases += array_a_cases(ctx)
    for f in ("enum-params", "union-cycle", "union-cycle-any", "helper-name-collisions"):
        for mode in ("client-mod", "server-mod"):
            for em in ("relaxed", "preserve"):
                cases.append(gen_case(FEATURES[f], mode, {"vis": "public", "enum_mode": em}, code=True))
    cases.append(gen_case(FEATURES["plain"], "client-mod", {"vis": "file", "enum_mode": "merge"}, code=True))
    cases.append(gen_case(FEATURES["plain"], "types", {"vis": "file", "enum_mode": "merge"}, code=True))
    for _ in range(n_random):
        mode, cfg = featgen.rand_cfg(r)
        if mode != "types" and cfg["vis"] == "file" and r.random() < 0.85:
            cfg["vis"] = r.choice(["public", "crate"])      # module modes with private items never compile (KnownFileVisModule): keep a few
        cases.append(gen_case(featgen.rand_spec(r), mode, cfg, code=True))
    sent = [prepare(c) for c in cases]
    triples = par_impl(ctx, sent)
    judged = []
    for start in range(0, len(triples), per_round):
        chunk = list(enumerate(triples))[start:start + per_round]
        mods = {}
        for i, t in chunk:
            ok = t["impl"].get("ok") if isinstance(t["impl"], dict) else None
            if not ok or ok.get("parse_errors"):
                continue
            files = dict(ok["code"])
            mode = t["in"]["mode"]
            if mode == "client":
                # `generate client` writes the client half only; it is checked next to the types of the same spec,
                # joined by the `use super::types::*` that client-mod's client.rs carries (DESIGN §6 C01)
                tcase = {"op": "comp.gen", "in": dict(t["in"], mode="types", want=["code"])}
                tt = ctx.run_impl([tcase])[0]["impl"].get("ok")
                if not tt:
                    continue
                files = {"types": tt["code"]["types"], "client": files["client"] + "\nuse super::types::*;\n",
                         "mod": "pub mod types;\npub mod client;\npub use types::*;\n"}
                ok["items"] = [it for it in ok["items"]] + tt["items"]
                ok["imports"] = dict(ok.get("imports", {}), **tt.get("imports", {}))
                ok["mentions"] = dict(ok.get("mentions", {}), **tt.get("mentions", {}))
                ok["const_mentions"] = dict(ok.get("const_mentions", {}), **tt.get("const_mentions", {}))
            mods[i] = {"mode": "types" if mode == "types" else "dir", "files": files}
        errs = c01_arena.compile_modules(mods, note=ctx.note)
        for i, t in chunk:
            if i not in mods:
                continue
            ok = t["impl"]["ok"]
            dig = {k: ok[k] for k in ("items", "imports", "mentions", "const_mentions") if k in ok}
            inp = {k: v for k, v in t["in"].items() if k != "want"}
            judged.append({"op": "comp.rustc", "in": inp, "primary": {"spec": inp["spec"], "mode": inp["mode"], "cfg": inp["cfg"]},
                           "impl": {"digest": dig, "errors": [err_digest(e) for e in errs[i]], "warnings": ok.get("warnings", [])}})
    ctx.judge_direct(judged, tie="A")
    ctx.extra["arena"] = {"modules": len(judged), "rejected_by_rustc": sum(1 for j in judged if j["impl"]["errors"]),
                          "generator_refused": len(triples) - len(judged)}


def run(ctx):
    proofs_ok, driver_ok = ctx.build_lean(["Oas3Model.Props.C01"])
    if proofs_ok:
        ctx.audit("Oas3Model.Props.C01")
        if not ctx.quick:
            ctx.leanchecker("Oas3Model.Props.C01")
    ctx.prepare = prepare
    if driver_ok and ctx.build_harness(["k_comp"]):
        allc = vlib_corpus(ctx) + k_cases(ctx)
        for i in range(0, len(allc), 4000):
            ctx.classify(ctx.evaluate(allc[i:i + 4000], tie="K"), tie="K")
        ec = e_cases(ctx)
        for i in range(0, len(ec), 1200):
            batch = ec[i:i + 1200]
            triples = par_impl(ctx, [prepare(c) for c in batch])
            answers = ctx.run_model(triples)
            ctx.ties["E"] = ctx.ties.get("E", 0) + len(batch)
            ctx.classify(list(zip(batch, triples, answers)), shrink=False, tie="E")
            if len(ctx.violations) >= 3:
                break
        if not ctx.violations:
            try:
                arena(ctx, 40 if ctx.quick else 420)
            except Exception:
                import traceback
                ctx.breaks.append(vlib.Break("harness", "arena", traceback.format_exc()))
    return ctx.finish(
        checker_cmd="lake build Oas3Model.Props.C01 && #print axioms on every theorem" + ("" if ctx.quick else " && leanchecker"),
        trusted_base=vlib.TRUSTED_BASE + [
            "rustc (cargo check, offline, /repo/Cargo.lock) on the arena crate is the ORACLE of the part of C01 that is not logic; it is trusted, not modelled",
            "arena/c01/Cargo.toml lists the documented runtime crates (serde, serde_with, validator, reqwest, axum, http, chrono, uuid, regex, anyhow, bon, oas3-gen-support) plus serde_json",
            "syn-based digest of the emitted files (harness/src/k_comp.rs): items, capabilities, member type mentions (plain / through a map / in a Vec), attributes, constructor parameters",
            "location of a rustc error: primary span -> enclosing top-level item by column-0 head lines of prettyplease output (bin/checks/c01_arena.py)"],
        rule="K: bounded-exhaustive two-struct graphs (3^4 edge sets incl. map edges and self loops x 4^2 seedings x 2 targets) + random graphs of 1-7 types of all kinds through the real PostprocessOutput::new, compared with the worklist model (usage -> serde mode -> derives, nested flags, uses) and judged for Serialize/Deserialize/Validate closure; "
             "E: feature-grammar documents x flag lattice (1152 combinations on single-feature documents in the thorough tier, sampled in quick) through the whole generator in-process, judged by WF on a syn digest of the emitted files; "
             "A: the same emitted files compiled by rustc as modules of the arena crate; every rustc error must be accounted for by a characterised WF violation; non-trivial = any branch other than no-output; distinct by input hash",
        assumptions=["names in generated documents are ASCII identifiers (naming is C09's business); OPTIONS/TRACE operations are not generated (C03/C12: the generator panics and writes nothing)",
                     "rustc reports the first failing phase only: a module rejected for unresolved names is not also checked for type errors"])
