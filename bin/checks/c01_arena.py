"""C01 arena (tie A): the files the REAL generator emits are placed as modules of a crate that depends only on the
documented runtime crates, and `cargo check --message-format=json` (rustc) is the oracle for the part of C01 that
is not logic.  Every rustc error is located (module, file, enclosing item) so that the Lean judge can demand that
each one is explained by a characterised defect class."""
import json, os, re, shutil, subprocess
import vlib

TEMPLATE = os.path.join(vlib.VERIF, "arena", "c01")
ARENA = os.path.join(vlib.CACHE, "arena-c01")
TARGET = os.path.join(vlib.CACHE, "arena-target")
ENV = dict(os.environ, CARGO_NET_OFFLINE="true", CARGO_TERM_COLOR="never", CARGO_TARGET_DIR=TARGET)

HEAD = re.compile(r"^(?:pub(?:\([a-z]+\))? )?(?:async )?(?:unsafe )?(struct|enum|type|static|const|fn|impl|trait|use|mod)\b(.*)$")


def item_index(code):
    """line number (1-based) -> (kind, name) of the enclosing top-level item of prettyplease-formatted code.
    Item attributes / doc comments (column-0 lines starting with `#[` or `///`) belong to the item that follows."""
    lines = code.splitlines()
    owner = [None] * (len(lines) + 2)
    heads = []
    for i, l in enumerate(lines, 1):
        m = HEAD.match(l)
        if m:
            kind, rest = m.group(1), m.group(2).strip()
            if kind == "impl":
                mm = re.search(r"\bfor\s+([A-Za-z_][A-Za-z0-9_]*)", rest) or re.match(r"(?:<[^>]*>\s*)?([A-Za-z_][A-Za-z0-9_:]*)", rest)
                name = mm.group(1) if mm else rest
                # `impl TryFrom<&X> for http::HeaderMap` / `impl TryFrom<X> for http::HeaderMap` belong to X
                hm = re.search(r"TryFrom<&?([A-Za-z_][A-Za-z0-9_]*)>\s+for\s+http::HeaderMap", rest)
                if hm:
                    name = hm.group(1)
            else:
                mm = re.match(r"([A-Za-z_#][A-Za-z0-9_#]*)", rest)
                name = mm.group(1) if mm else rest
            heads.append((i, kind, name))
    hi = 0
    cur = None
    pending = []          # attribute lines waiting for their item
    for i, l in enumerate(lines, 1):
        if hi < len(heads) and heads[hi][0] == i:
            cur = (heads[hi][1], heads[hi][2])
            for p in pending:
                owner[p] = cur
            pending = []
            hi += 1
            owner[i] = cur
        elif l.startswith("#[") or l.startswith("///") or (pending and not l.startswith(" ") and l.strip() and not HEAD.match(l) and l[0] in ")]"):
            pending.append(i)
        elif pending and l.startswith(" "):
            pending.append(i)       # continuation of a multi-line attribute
        else:
            owner[i] = cur
    return owner


def cargo_check():
    with vlib.lock("cargo-arena-c01"):
        shutil.copyfile(os.path.join(vlib.REPO, "Cargo.lock"), os.path.join(ARENA, "Cargo.lock"))
        p = subprocess.run(["cargo", "check", "--offline", "--message-format=json", "--lib"], cwd=ARENA, env=ENV, capture_output=True, text=True, timeout=3000)
    msgs = []
    for l in p.stdout.splitlines():
        if not l.startswith("{"):
            continue
        try:
            d = json.loads(l)
        except ValueError:
            continue
        if d.get("reason") == "compiler-message" and d.get("message", {}).get("level") == "error":
            msgs.append(d["message"])
    return p.returncode, msgs, p.stderr


def write_module(src, i, mode, files):
    """module m<i>: the emitted files exactly as written by the CLI (`generate types` = one file, `client-mod` /
    `server-mod` = a directory with the emitted mod.rs; `generate client` (single file, sampled) = the client half
    next to the types of the same spec, joined by the `use super::types::*` that client-mod's client.rs carries)."""
    if mode == "types":
        open(os.path.join(src, "m%d.rs" % i), "w").write(files["types"])
        return {"types": "src/m%d.rs" % i}
    d = os.path.join(src, "m%d" % i)
    os.makedirs(d, exist_ok=True)
    out = {}
    for k, v in files.items():
        fn = {"types": "types.rs", "client": "client.rs", "server": "server.rs", "mod": "mod.rs"}[k]
        open(os.path.join(d, fn), "w").write(v)
        out[k] = "src/m%d/%s" % (i, fn)
    return out


def write_crate(mods):
    """mods: {i: {"mode", "files": {kind: code}}}"""
    src = os.path.join(ARENA, "src")
    os.makedirs(src, exist_ok=True)
    shutil.copyfile(os.path.join(TEMPLATE, "Cargo.toml"), os.path.join(ARENA, "Cargo.toml"))
    for f in os.listdir(src):
        p = os.path.join(src, f)
        shutil.rmtree(p) if os.path.isdir(p) else os.remove(p)
    paths = {}
    decl = []
    for i, m in sorted(mods.items()):
        for k, pth in write_module(src, i, m["mode"], m["files"]).items():
            paths[pth] = (i, k)
        decl.append("pub mod m%d;" % i)
    open(os.path.join(src, "lib.rs"), "w").write("#![allow(warnings)]\n" + "\n".join(decl) + "\n")
    return paths


def primary_span(msg):
    sp = [s for s in msg.get("spans", []) if s.get("is_primary")] or msg.get("spans", [])
    if not sp:
        return None
    s = sp[0]
    # an error inside a macro expansion is reported at the expansion site in the emitted file
    while s.get("expansion") and not s["file_name"].startswith("src/"):
        s = s["expansion"]["span"]
    return s


def compile_modules(mods, max_rounds=6, note=None):
    """returns {i: [ {code, msg, file, item:[kind,name], line, text} ]} (empty list = the module type-checks).
    rustc stops at the first failing phase (resolution before type checking), so failing modules are removed and
    the rest is checked again until the crate is clean."""
    remaining = dict(mods)
    errs = {i: [] for i in mods}
    for rnd in range(max_rounds):
        if not remaining:
            break
        paths = write_crate(remaining)
        indexes = {}
        rc, msgs, stderr = cargo_check()
        if rc == 0:
            break
        bad = set()
        unlocated = []
        for m in msgs:
            s = primary_span(m)
            if not s or s["file_name"] not in paths:
                unlocated.append(m.get("message", "")[:200] + " @" + (s["file_name"] if s else "?"))
                continue
            i, kind = paths[s["file_name"]]
            if (i, kind) not in indexes:
                indexes[(i, kind)] = item_index(remaining[i]["files"][kind])
            own = indexes[(i, kind)]
            ln = s["line_start"]
            item = own[ln] if 0 < ln < len(own) and own[ln] else ("", "")
            text = (s.get("text") or [{}])[0].get("text", "").strip()
            errs[i].append({"code": (m.get("code") or {}).get("code") or "", "msg": m.get("message", "")[:300], "file": kind,
                            "item": list(item), "line": ln, "text": text[:200]})
            bad.add(i)
        if not bad:
            raise RuntimeError("arena check failed outside the generated modules:\n" + "\n".join(unlocated)[:2000] + stderr[-2000:])
        if note:
            note("arena round %d: %d modules, %d rejected by rustc" % (rnd, len(remaining), len(bad)))
        for b in bad:
            remaining.pop(b)
    else:
        raise RuntimeError("arena did not converge")
    return errs
