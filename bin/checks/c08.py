"""C08 — operation selection: list, --only and --exclude agree and are exact (real CLI)."""
import itertools, json, os, re
import vlib
from checks.c09 import vlib_corpus
from specgen import base_spec

ROW = re.compile(r"^\s(\S+)\s+(GET|PUT|POST|DELETE|OPTIONS|HEAD|PATCH|TRACE)\s+(\S+)\s*$")
PATHDOC = re.compile(r"Path: `(\S+) (\S+)`")


def spec_of(ops):
    s = base_spec()
    for o in ops:
        op = {"responses": {"200": {"description": "ok"}}}
        if o.get("operationId") is not None:
            op["operationId"] = o["operationId"]
        if o.get("bare"):
            op = {k: v for k, v in op.items() if k == "operationId"}
        if o.get("webhook"):
            s.setdefault("webhooks", {}).setdefault(o["path"].split("/", 1)[1], {})[o["method"].lower()] = op
        else:
            s["paths"].setdefault(o["path"], {})[o["method"].lower()] = op
    return s


ID_FAMILIES = [
    ["api_users_list", "api_users_get", "api_users_create"],
    ["getPet", "get_pet", "get-pet", "GetPet"],
    ["listPets", "createPets", "deletePets"],
    ["a", "a_2", "a"],
    ["users_list", "users", "list"],
    ["op", "op2", "other"],
    ["v1_x_get", "v1_y_get"],
    [None, None, None],
    ["type", "self", "fn"],
    ["new", "with_client", "with_base_url"],
    ["storeListOrders", "storeCreateOrder", "storeGetOrder"],
]
# (several keys that become ONE route on the server: trailing-slash twin, query-string variants)
PATHS = ["/pets", "/pets/{id}", "/users", "/users/{id}/x", "/a", "/b", "/pets/", "/a?x=1", "/a?x=2"]
METHODS = ["get", "post", "put", "delete", "patch", "head", "trace", "options"]   # (the oas3 crate yields TRACE twice per path item: finding F08-6, repaired)


def rand_ops(r):
    fam = r.choice(ID_FAMILIES)
    n = r.randint(2, min(5, len(fam) + 2))
    ops, used = [], set()
    for i in range(n):
        for _ in range(20):
            p, m = r.choice(PATHS), r.choice(METHODS)
            if (p, m) not in used:
                used.add((p, m)); break
        else:
            continue
        oid = fam[i % len(fam)] if r.random() < 0.85 else r.choice([None, "misc%d" % i])
        ops.append({"method": m.upper(), "path": p, "operationId": oid})
    if r.random() < 0.35:
        ops.append({"method": "POST", "path": "webhooks/hook%d" % r.randint(0, 1), "operationId": r.choice(["notifyOrderShipped", "onEvent", fam[0] or "hooked"]), "webhook": True})
    return ops


def run_case(ctx, idx, ops, subsets):
    """list + one generate per (mode, S). Returns list of cases with impl."""
    d = ctx.scratch("c%d" % idx)
    spec_path = os.path.join(d, "spec.json")
    json.dump(spec_of(ops), open(spec_path, "w"))
    rc, out, err, to = ctx.run_cli(["list", "operations", "-i", spec_path])
    rows = [list(m.groups()) for m in (ROW.match(l) for l in out.splitlines()) if m]
    if rc != 0 or not rows:
        return [{"op": "registry.select", "in": {"ops": ops, "S": [], "mode": "only", "silent": []}, "impl": {"list": rows, "emitted": [], "cli_rc": rc, "stderr": err[-300:]}}]
    ids = [r_[0] for r_ in rows]
    res = []
    silent = [[o["method"], o["path"]] for o in ops if o.get("bare")]
    for mode, S in subsets(ids):
        if not S:
            continue
        # client methods and server trait methods in turn (both for every selection in the thorough tier)
        targets = ["client-mod", "server-mod"] if (not ctx.quick or any(o.get("twin") for o in ops)) else [("client-mod", "server-mod")[len(res) % 2]]
        for target in targets:
            outdir = os.path.join(d, "out_%s_%d" % (mode, len(res)))
            rc2, o2, e2, to2 = ctx.run_cli(["generate", target, "-i", spec_path, "-o", outdir, "-q", "--" + mode, ",".join(S)])
            emitted = []
            cf = os.path.join(outdir, "client.rs" if target == "client-mod" else "server.rs")
            if rc2 == 0 and os.path.exists(cf):
                facts = ctx.synfacts([cf]).get(cf, {})
                if target == "client-mod":
                    methods = facts.get("client_methods", [])
                else:
                    methods = [m for it in facts.get("items", []) if it.get("kind") == "trait" for m in it.get("methods", [])]
                for m in methods:
                    for doc in m.get("docs", []):
                        mm = PATHDOC.search(doc)
                        if mm:
                            emitted.append([mm.group(1), mm.group(2)])
            res.append({"op": "registry.select", "in": {"ops": ops, "S": S, "mode": mode, "silent": silent, "target": target}, "impl": {"list": rows, "emitted": emitted, "cli_rc": rc2, "stderr": e2[-300:]}})
    return res


def listwidth_cases(ctx):
    """`list operations` read at 80 columns (what a script gets: no COLUMNS, stdout a pipe) against the same at 400 columns"""
    r = ctx.rng
    out = []
    docs = [[{"opid": "get" + "VeryLongOperationIdentifierSegment" * 3, "method": "GET", "path": "/a"}, {"opid": "short", "method": "GET", "path": "/b"}],
            [{"opid": "listThingsWithAModeratelyLongName", "method": "GET", "path": "/some/rather/long/path/with/{many}/segments/{and}/parameters/to/fill/the/row"}, {"opid": "other", "method": "POST", "path": "/o"}],
            [{"opid": "listPets", "method": "GET", "path": "/pets"}, {"opid": "createPets", "method": "POST", "path": "/pets"}, {"opid": "showPetById", "method": "GET", "path": "/pets/{petId}"}]]
    for i, ops in enumerate(docs):
        d = ctx.scratch("lw%d" % i)
        spec_path = os.path.join(d, "spec.json")
        json.dump(spec_of([{"operationId": o["opid"], "method": o["method"], "path": o["path"]} for o in ops]), open(spec_path, "w"))
        ids = {}
        for tag, env in (("ids_wide", {"COLUMNS": "400"}), ("ids_narrow", {"COLUMNS": None})):
            rc, o, e, to = ctx.run_cli(["list", "operations", "-i", spec_path], env=env)
            # first column of every table row (also of the continuation rows of a wrapped cell)
            ids[tag] = [m.group(1) for m in (re.match(r"^ (\S+)", l) for l in o.splitlines()) if m and m.group(1) != "OPERATION" and not set(m.group(1)) <= set("─")]
        out.append({"op": "registry.listwidth", "in": {"doc": i, "ops": [o["opid"] for o in ops]}, "impl": ids})
    return out


def run(ctx):
    ctx.translate(["naming"])
    proofs_ok, driver_ok = ctx.build_lean(["Oas3Model.Props.C08"])
    if proofs_ok:
        ctx.audit("Oas3Model.Props.C08")
        if not ctx.quick:
            ctx.leanchecker("Oas3Model.Props.C08")
    r = ctx.rng
    if driver_ok and ctx.build_harness(["k_gen"], bins=("hk", "synfacts")):
        # K: registry model vs OperationRegistry::with_filters
        kc = []
        for _ in range(400 if ctx.quick else 4000):
            ops = rand_ops(r)
            from checks.c08 import spec_of as so
            ids = [o["operationId"] for o in ops if o["operationId"]]
            flt = r.choice([None, "only", "exclude"])
            S = r.sample(ids, r.randint(0, len(ids))) if ids else []
            S = [vlib_field(s) for s in S] + (["nope"] if r.random() < 0.2 else [])
            kc.append({"op": "registry.build", "in": {"ops": ops, "only": S if flt == "only" else None, "exclude": S if flt == "exclude" else None}})
        ctx.prepare = lambda c: {"op": c["op"], "in": dict(c["in"], spec=spec_of(c["in"]["ops"]))} if c["op"] == "registry.build" else c
        ctx.classify(ctx.evaluate(vlib_corpus(ctx) + kc), tie="K")
        # E: the real CLI
        if ctx.build_cli():
            fixed = [[{"method": "GET", "path": "/u", "operationId": "api_users_list"}, {"method": "GET", "path": "/u/{id}", "operationId": "api_users_get"}],
                     [{"method": "GET", "path": "/a", "operationId": "x"}, {"method": "POST", "path": "/a", "operationId": "x"}],
                     [{"method": "GET", "path": "/a", "operationId": "only"}, {"method": "GET", "path": "/b", "operationId": "bare", "bare": True}],
                     [{"method": "GET", "path": "/a", "operationId": "alpha"}, {"method": "PUT", "path": "/b", "operationId": "beta"}, {"method": "GET", "path": "/c", "operationId": None}],
                     # two path keys that are ONE route on the server (trailing-slash twin, query-string variants), same method:
                     # every selection, client AND server target in every tier (seeded C08/m3 had been caught by a random draw only)
                     [{"method": "HEAD", "path": "/pets", "operationId": "headPets", "twin": True}, {"method": "HEAD", "path": "/pets/", "operationId": "headPetsSlash"}, {"method": "POST", "path": "/a", "operationId": "mk"}],
                     [{"method": "GET", "path": "/a?x=1", "operationId": "one", "twin": True}, {"method": "GET", "path": "/a?x=2", "operationId": "two"}, {"method": "DELETE", "path": "/a", "operationId": "three"}]]
            ctx.judge_direct(listwidth_cases(ctx), tie="E-cli")
            sets = fixed + [rand_ops(r) for _ in range(12 if ctx.quick else 80)]
            for idx, ops in enumerate(sets):
                def subsets(ids, quick=ctx.quick):
                    allsub = [list(c) for k in range(1, len(ids) + 1) for c in itertools.combinations(ids, k)]
                    if quick and len(allsub) > 5 and not any(o.get("twin") for o in ops):
                        allsub = r.sample(allsub, 5)
                    for S in allsub:
                        for mode in ("only", "exclude"):
                            yield mode, S
                ctx.judge_direct(run_case(ctx, idx, ops, subsets), tie="E-cli")
                if len(ctx.violations) >= 3:
                    break
    return ctx.finish(
        checker_cmd="lake build Oas3Model.Props.C08 && #print axioms on every theorem" + ("" if ctx.quick else " && leanchecker"),
        trusted_base=vlib.TRUSTED_BASE + ["the CLI's table output is parsed by a regular expression (one row per operation)", "method doc lines identify the operation a client method / server trait method belongs to"],
        rule="K: random operation sets (ids sharing prefixes/suffixes, colliding after snake-casing, missing operationId, keywords) through OperationRegistry::with_filters vs the model; E: the REAL binary: `list operations`, then `generate client-mod | server-mod --only S` / `--exclude S` for every non-empty subset S of the listed ids (all subsets x both targets thorough; 5 sampled per set, targets alternating, quick), emitted client methods / ApiServer trait methods mapped back to (METHOD, path); path keys include trailing-slash twins and query-string variants that become one route; non-trivial = a selection that is a proper subset; distinct by (ops, S, mode)")


def vlib_field(s):
    # ids are given to --only/--exclude the way a user would copy them from `list` … for K we feed base ids
    import re as _re
    t = _re.sub(r"[^A-Za-z0-9_]+", "_", s).strip("_")
    t = _re.sub(r"([a-z])([A-Z])", r"\1_\2", t).lower()
    return t
