"""C15 — enum modes keep their documented accept/emit contracts.

Ties: T (flag table / strategy wiring / FALLBACK_NAMES regenerated from the source), P (Props/C15),
K (`enum.build`: the real ValueEnumBuilder fold vs the model, bounded-exhaustive + random),
E (`enum.gen`: the real generator in-process on a spec per (values, mode, shape); the emitted enum's
serde attributes / hand-written Deserialize / wrapper parsed with syn, compared with the model and
JUDGED through Sem), A (thorough: emitted enums compiled in an arena crate and executed; every decode /
encode compared with Sem on the emitted facts)."""
import concurrent.futures, itertools, json, os, shutil
import vlib
from checks.c09 import vlib_corpus
from specgen import enum_spec

SIGMA = ["a", "A", "b", "-", "_", "1"]
MODES = ["merge", "preserve", "relaxed"]
SHAPES = ["plain", "nullable", "open"]
KCOMBOS = [("dedup", False), ("preserve", False), ("dedup", True), ("preserve", True)]
# keywords, the fallback names, prelude names, separator-only / case-only / digit neighbours
SPECIAL = ["", "type", "fn", "match", "self", "Self", "SELF", "unknown", "Unknown", "UNKNOWN", "other", "Other", "un-known",
           "foo-bar", "foo_bar", "FOO_BAR", "fooBar", "Foo Bar", "foo.bar", "a2", "A2", "a1", "A1", "a3", "1a", "-a", "a-", "Vec", "Type",
           "Known", "r#a", "r#self", "true", "null", "1", "-1", "1.5", "ab", "aB", "AB", "Ab", "a b", "ß", "é", "É"]
RICH = ["a", "A", "a1", "a2", "a3", "_a", "A2", "-a"]


def strings_upto(n, sigma=SIGMA):
    out = []
    for k in range(n + 1):
        out += ["".join(t) for t in itertools.product(sigma, repeat=k)]
    return out


def lists_upto(pool, n, lo=1):
    for k in range(lo, n + 1):
        for t in itertools.product(pool, repeat=k):
            yield list(t)


def kcase(values, strategy, ci):
    return {"op": "enum.build", "in": {"values": values, "strategy": strategy, "ci": ci}}


def ecase(values, mode, shape, nullpos=0):
    return {"op": "enum.gen", "in": {"values": values, "emode": mode, "shape": shape, "nullpos": nullpos}}


def prepare(case):
    """the OpenAPI document and the generator configuration are DERIVED from the primary data (values,
    mode, shape) at evaluation time, so shrinking stays consistent."""
    if case["op"] != "enum.gen":
        return case
    i = case["in"]
    if not i["values"] or not all(isinstance(v, str) for v in i["values"]):
        raise ValueError("enum.gen needs a non-empty list of strings")
    d = dict(i, mode="types", cfg={"enum_mode": i["emode"]}, spec=enum_spec(i["values"], i["shape"], i.get("nullpos", 0)))
    return {"op": case["op"], "in": d}


def random_values(r, longer=False):
    n = r.randint(1, 6) if not longer else r.randint(5, 16)
    style = r.random()
    out = []
    for _ in range(n):
        if style < 0.35:      # collision-rich
            out.append(r.choice(RICH + ["a", "A"]))
        elif style < 0.6:
            out.append(r.choice(SPECIAL))
        else:
            k = r.randint(0, 5)
            s = "".join(r.choice(SIGMA + ["c", "B", " ", "."]) for _ in range(k))
            if out and r.random() < 0.4:   # a near-duplicate of an earlier value
                b = r.choice(out)
                s = r.choice([b.upper(), b.lower(), b.swapcase(), b.replace("-", "_"), b.replace("_", "-"), b + str(r.randint(1, 12)), b.capitalize(), b])
            out.append(s)
    return out


def k_cases(ctx):
    r = ctx.rng
    out = []
    s1, s2 = [""] + SIGMA, strings_upto(2)
    if ctx.quick:
        spaces = [lists_upto(s2, 2), lists_upto(s1, 3, 3), lists_upto(RICH[:6], 4, 4), ([s] for s in SPECIAL), ([a, b] for a in SPECIAL for b in ["a", "unknown", "Other", a.upper()])]
    else:
        spaces = [lists_upto(strings_upto(3), 2), lists_upto(s2, 3, 3), lists_upto(s1 + ["a1", "a2", "a3"], 4, 4), lists_upto(RICH, 4, 4),
                  lists_upto(SPECIAL, 2)]
    for sp in spaces:
        for vs in sp:
            for st, ci in KCOMBOS:
                out.append(kcase(vs, st, ci))
    for _ in range(4000 if ctx.quick else 150000):
        vs = random_values(r, longer=r.random() < 0.3)
        if r.random() < 0.3:
            vs = list(vs)
            for _ in range(r.randint(1, 2)):
                vs.insert(r.randint(0, len(vs)), None)
        st, ci = r.choice(KCOMBOS)
        out.append(kcase(vs, st, ci))
    return out


def e_cases(ctx):
    r = ctx.rng
    out = []
    s1 = [""] + SIGMA
    if ctx.quick:
        spaces = [lists_upto(s1, 2), lists_upto(RICH[:4], 3, 3), ([s] for s in SPECIAL), ([a, b] for a in SPECIAL[:24] for b in ["a", "Unknown"])]
    else:
        spaces = [lists_upto(strings_upto(2), 2), lists_upto(s1, 3, 3), lists_upto(RICH, 3, 3), lists_upto(RICH[:5], 4, 4), lists_upto(SPECIAL, 2)]
    for sp in spaces:
        for vs in sp:
            for m in MODES:
                for sh in SHAPES:
                    out.append(ecase(vs, m, sh, r.randint(0, len(vs)) if sh == "nullable" else 0))
    if ctx.quick:
        for vs in r.sample(list(lists_upto(strings_upto(2), 2, 2)), 350):
            for m in MODES:
                for sh in SHAPES:
                    out.append(ecase(vs, m, sh, r.randint(0, len(vs)) if sh == "nullable" else 0))
    for _ in range(2000 if ctx.quick else 30000):
        vs = random_values(r, longer=r.random() < 0.3)
        sh = r.choice(SHAPES)
        out.append(ecase(vs, r.choice(MODES), sh, r.randint(0, len(vs)) if sh == "nullable" else 0))
    return out


def par_evaluate(ctx, cases, tie, workers=8, chunk=1500):
    chunks = [cases[i:i + chunk] for i in range(0, len(cases), chunk)]
    with concurrent.futures.ThreadPoolExecutor(max_workers=workers) as ex:
        for res in ex.map(lambda c: ctx.evaluate(c, tie=tie), chunks):
            yield res


# ---------------------------------------------------------------------------------------------
# tie A: compile the emitted enums and run them
ARENA_MAIN = r'''// GENERATED by bin/checks/c15.py — emitted enums of property C15, executed.
#![allow(dead_code, unused_imports, unreachable_patterns, non_camel_case_types, clippy::all)]
use std::io::BufRead;
use serde_json::{json, Value};
mod emitted;
fn run<T: serde::de::DeserializeOwned + serde::Serialize + std::fmt::Display>(s: &str) -> Value {
  let wire = serde_json::to_string(s).unwrap();
  match serde_json::from_str::<T>(&wire) {
    Ok(x) => json!({"ser": serde_json::to_value(&x).unwrap_or(Value::Null), "disp": x.to_string()}),
    Err(_) => Value::Null,
  }
}
fn main() {
  for line in std::io::stdin().lock().lines() {
    let Ok(line) = line else { break };
    let Ok(req) = serde_json::from_str::<Value>(&line) else { continue };
    let m = req["m"].as_u64().unwrap_or(u64::MAX);
    let outs: Vec<Value> = req["probes"].as_array().map(|a| a.iter().map(|p| {
      let s = p.as_str().unwrap_or("");
      match m {
        @ARMS@
        _ => json!("no-module"),
      }
    }).collect()).unwrap_or_default();
    println!("{}", json!({"m": m, "outs": outs}));
  }
}
'''


def probes_for(values, r):
    ps = []
    for v in values:
        ps += [v, v.upper(), v.lower(), v.swapcase(), v.capitalize(), v + "x", v.replace("-", "_"), v.replace("_", "-")]
    ps += ["", "zz", "unknown", "Unknown", "other", "OTHER", "Known"]
    seen, out = set(), []
    for p in ps:
        if p not in seen:
            seen.add(p); out.append(p)
    return out


def arena(ctx, e_results, limit):
    """compile + run a sample of the emitted enums; compare with Sem (op enum.sem)."""
    r = ctx.rng
    picked, seen_br = [], {}
    pool = [(c, t) for c, t, a in e_results if isinstance(t.get("impl"), dict) and t["impl"].get("enum") and not t["impl"]["enum"].get("odd")]
    r.shuffle(pool)
    # exact duplicates / case-only duplicates first: duplicate serde names and unreachable arms must compile
    pool.sort(key=lambda ct: 0 if len({v.lower() for v in ct[0]["in"]["values"]}) < len(ct[0]["in"]["values"]) else 1)
    for c, t in pool:
        names = [v["name"] for v in t["impl"]["enum"]["variants"]]
        if len(set(names)) != len(names) or any(n.startswith("r#") for n in names) or t["impl"].get("open") not in (True, False):
            continue     # does not compile (KnownPreserveSuffixClash / C09 r#Self): nothing to execute
        if any(ch in v for v in c["in"]["values"] for ch in "{}"):
            continue     # C19: `{` in a Display literal does not compile
        key = (c["in"]["emode"], c["in"]["shape"], len(c["in"]["values"]) > 2)
        if seen_br.get(key, 0) >= limit // 12:
            continue
        seen_br[key] = seen_br.get(key, 0) + 1
        picked.append((c, t))
        if len(picked) >= limit:
            break
    if not picked:
        ctx.breaks.append(vlib.Break("harness", "arena:no-cases"))
        return
    # emitted text of the enum items
    want = [dict(ctx.prepare(c), id=i) for i, (c, _) in enumerate(picked)]
    for w in want:
        w["in"]["want"] = ["code"]
    got = ctx.run_impl(want)
    adir = os.path.join(vlib.CACHE, "arena_c15")
    shutil.rmtree(os.path.join(adir, "src"), ignore_errors=True)
    os.makedirs(os.path.join(adir, "src", "emitted"), exist_ok=True)
    shutil.copyfile(os.path.join(vlib.VERIF, "arena", "c15", "Cargo.toml"), os.path.join(adir, "Cargo.toml"))
    shutil.copyfile(os.path.join(vlib.REPO, "Cargo.lock"), os.path.join(adir, "Cargo.lock"))
    mods, arms = [], []
    for i, g in enumerate(got):
        code = g["impl"].get("code")
        if not code:
            ctx.breaks.append(vlib.Break("harness", "arena:no-code", json.dumps(g)[:500]))
            return
        open(os.path.join(adir, "src", "emitted", f"m{i}.rs"), "w").write("#![allow(dead_code, unreachable_patterns)]\nuse serde::{Deserialize, Serialize};\n" + code)
        mods.append(f"pub mod m{i};")
        arms.append(f"{i} => run::<emitted::m{i}::E>(s),")
    open(os.path.join(adir, "src", "emitted", "mod.rs"), "w").write("\n".join(mods) + "\n")
    open(os.path.join(adir, "src", "main.rs"), "w").write(ARENA_MAIN.replace("@ARMS@", "\n        ".join(arms)))
    with vlib.lock("cargo"):
        rc, out, err = vlib.sh(["cargo", "build", "--offline", "--bin", "arena_c15"], cwd=adir, timeout=3000)
    if rc != 0:
        ctx.breaks.append(vlib.Break("harness", "arena:build", err))
        return
    reqs = []
    for i, (c, t) in enumerate(picked):
        reqs.append({"m": i, "probes": probes_for(c["in"]["values"], r)})
    rc, out, err = vlib.sh([os.path.join(vlib.TARGET, "debug", "arena_c15")], input="".join(json.dumps(q) + "\n" for q in reqs), timeout=600)
    lines = [json.loads(l) for l in out.splitlines() if l.strip()]
    if len(lines) != len(reqs):
        ctx.breaks.append(vlib.Break("harness", "arena:run", f"rc={rc} {err[-800:]}"))
        return
    triples = []
    for (c, t), q, a in zip(picked, reqs, lines):
        facts = {"enum": t["impl"]["enum"], "open": t["impl"]["open"]}
        triples.append({"op": "enum.sem", "in": {"emitted": facts, "probes": q["probes"], "of": c["in"]}, "impl": a["outs"]})
    answers = ctx.run_model(triples)
    ctx.ties["A"] = ctx.ties.get("A", 0) + len(triples)
    ctx.extra["arena"] = {"modules": len(picked), "probes": sum(len(q["probes"]) for q in reqs)}
    ctx.classify([({"op": t["op"], "in": t["in"]}, t, a) for t, a in zip(triples, answers)], shrink=False, tie="A")


def run(ctx):
    ctx.translate(["enummodes", "naming"])
    proofs_ok, driver_ok = ctx.build_lean(["Oas3Model.Props.C15"])
    if proofs_ok:
        ctx.audit("Oas3Model.Props.C15")
        if not ctx.quick:
            ctx.leanchecker("Oas3Model.Props.C15")
    ctx.prepare = prepare
    if driver_ok and ctx.build_harness(["k_enum"]):
        ctx.classify(ctx.evaluate(vlib_corpus(ctx), tie="corpus"), tie="corpus")
        for res in par_evaluate(ctx, k_cases(ctx), "K", chunk=20000):
            ctx.classify(res, tie="K")
            if len(ctx.violations) >= 3:
                break
        e_results = []
        if len(ctx.violations) < 3:
            for res in par_evaluate(ctx, e_cases(ctx), "E"):
                ctx.classify(res, tie="E")
                e_results += res
                if len(ctx.violations) >= 3:
                    break
        if not ctx.quick and not ctx.violations:
            arena(ctx, e_results, 720)
    return ctx.finish(
        checker_cmd="lake build Oas3Model.Props.C15 && #print axioms on every theorem" + ("" if ctx.quick else " && leanchecker Oas3Model.Props.C15"),
        trusted_base=vlib.TRUSTED_BASE + [
            "Sem/SerdeEnum.lean: serde_derive's string match for unit variants with rename/alias (first arm wins), Serialize = rename, Rust `match` on string literals, untagged Known/Other order — validated against compiled code only in the thorough tier (tie A)",
            "harness/src/k_enum.rs: syn extraction of the emitted enum (serde attribute literals, the hand-written Deserialize's scrutinee/arms/fallback, wrapper shape); unknown constructs are reported as `odd` and fail the judge",
            "to_rust_type_name is a parameter `nm` of every theorem; the driver instantiates it with the C09 model (compared with the real function in every case via the variant names)",
            "enum-mode flag table / strategy wiring / FALLBACK_NAMES regenerated from the source on every run (tie T); clap's parsing of --enum-mode is not exercised (the harness maps the mode like create_orchestrator)"],
        rule="K: every list of <=2 values over all strings of length <=2 (quick; <=3 thorough) on {a,A,b,-,_,1}, 3-lists over length <=1 (quick; <=2 thorough), 4-lists over a collision-rich pool (a,A,a1,a2,a3,_a[,A2,-a]), keywords / fallback names / prelude names alone and in pairs, x {Deduplicate,Preserve} x {case-sensitive, case-insensitive}, plus random longer lists (<=16 values, nulls inserted) through the real ValueEnumBuilder; "
             "E: lists of <=2 values over length <=1 (quick; <=2 thorough), 3-/4-lists over the collision-rich pool, specials, random longer lists x 3 --enum-mode settings x {plain, nullable (null at a random index), anyOf known+open string} through the real generator in-process; emitted enum parsed with syn, compared with the model, judged through Sem for every declared value, its ASCII case variants and the complete accepted set; "
             "A (thorough): 720 emitted enums compiled and executed, every probe's decode/serialize/Display compared with Sem. non-trivial = some two values collide, or a null / fallback / panic / clash is involved; distinct by (op,input) hash",
        assumptions=["JSON strings only (numbers / booleans as enum values are not generated)", "the enum is reachable from a request AND a response body (so both Serialize and Deserialize exist)",
                     "the property is observed at the enum type itself; how a FIELD that references a single-value enum is typed (it becomes `String`) is out of scope"])
