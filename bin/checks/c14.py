"""C14 — discriminated unions dispatch by tag and round-trip.

Cases are *discriminator configurations* (primary data `d`, see specgen.disc_spec); the OpenAPI
document is derived at evaluation time (`prepare`) so shrinking works on the configuration.  One case =
one in-process run of the REAL generator + the REAL SchemaRegistry (harness op `disc.run`), compared
with the Lean model `Oas3.Discr.F` and judged by `Oas3.Discr.judge` on the implementation's facts.
Thorough tier additionally compiles the emitted code (arena/c14) and executes decode/encode probes,
validating the trusted `Sem` layer against the compiled behaviour."""
import copy, itertools, json, os, re, shutil
import vlib
from checks.c09 import vlib_corpus
from specgen import disc_spec, own_field, site_spec, site_union

KIDS = ["Cat", "Dog", "Emu"]


def mk(d, all_schemas=False, only=None):
    i = {"d": d, "all": bool(all_schemas)}
    if only is not None:
        i["?only"] = only
    return {"op": "disc.run", "in": i}


SPELLS = ["snake", "kebab", "camel", "dotted"]


def respell(name, style):
    """another spelling of a PascalCase schema name with the same Rust type name (`to_rust_type_name(respell(n)) == n`)"""
    import re
    words = re.findall(r"[A-Z][a-z0-9]*", name)
    if "".join(words) != name or not words:
        return name
    if style == "camel":
        return words[0].lower() + "".join(words[1:])
    sep = {"snake": "_", "kebab": "-", "dotted": "."}[style]
    return sep.join(w.lower() for w in words)


def rename_map(spec, style):
    return {n: respell(n, style) for n in (spec.get("components") or {}).get("schemas") or {} if respell(n, style) != n}


def prepare(case, arena=False):
    if not case["op"].startswith("disc."):
        return case
    i = case["in"]
    if case["op"] == "disc.run" and i.get("?spell") and not arena:
        # the same document with its schema names spelled in snake / kebab / camel / dotted case: the harness rewrites the
        # document and maps schema-level names back, the emitted names are unchanged (so are model and judge)
        assert i["?spell"] in SPELLS
        base = prepare({"op": case["op"], "in": {k: v for k, v in i.items() if k != "?spell"}})
        base["in"]["?spell"] = i["?spell"]
        base["in"]["rename"] = rename_map(base["in"]["spec"], i["?spell"])
        return base
    if case["op"] == "disc.site":
        spec, locs = site_spec(i["d"])
        out = {"d": i["d"], "all": i.get("all", False), "spec": spec, "sites": locs, "mode": "client-mod",
               "cfg": {"all_schemas": bool(i.get("all", False)), "no_helpers": True}}
        if arena:
            out["want_probes"] = True
        return {"op": "disc.sitecode" if arena else "disc.site", "in": out}
    out = {"d": i["d"], "all": i.get("all", False), "spec": disc_spec(i["d"]), "mode": "client-mod",
           "cfg": {"all_schemas": bool(i.get("all", False))}}
    if i.get("?only") is not None:
        out["?only"] = i["?only"]
        out["only"] = i["?only"]
    if arena:
        out["cfg"]["no_helpers"] = True      # helper constructors are not part of the property (and see report: they can name a dropped variant)
        out["want_probes"] = True
    return {"op": "disc.code" if arena else case["op"], "in": out}


# ------------------------------------------------------------------------------------------------
# structured families

def tagprop(style, tag, i, alltags):
    if style == "plain":
        return ["plain"]
    if style == "const":
        return ["const", tag]
    if style == "enum":
        return ["enum", [tag, tag + "2"]]
    if style == "enumall":
        return ["enum", list(alltags)]
    if style == "mixed":
        return ["const", tag] if i == 0 else ["plain"]
    raise ValueError(style)


def mapping_of(mode, kids, tags):
    if mode == "implicit":
        return None
    m = [[t, k] for t, k in zip(tags, kids)]
    if mode == "partial":
        m = m[:-1]
    if mode == "multi":
        m.append([tags[0] + "2", kids[0]])
    if mode == "multi3":
        m += [[tags[0] + "2", kids[0]], ["a" + tags[0], kids[0]]]
    return m


def union_family(kind, n, mode, style, apfalse, second, nested, refs, all_schemas, uname="Pet", prop="kind"):
    kids = KIDS[:n]
    tags = [k.lower() for k in kids]
    schemas = []
    for i, (k, t) in enumerate(zip(kids, tags)):
        s = {"k": "leaf", "name": k, "tagname": prop, "tag": tagprop(style, t, i, tags)}
        if apfalse and i == 0:
            s["apfalse"] = True
        schemas.append(s)
    schemas.append({"k": "union", "name": uname, "kind": kind, "members": kids, "disc": {"prop": prop, "mapping": mapping_of(mode, kids, tags)}})
    unions = [uname]
    if second:
        sname, how = second
        schemas.append({"k": "leaf", "name": "Fox", "tagname": prop, "tag": tagprop(style, "fox", 1, tags)})
        m2 = {"same": [[tags[0], kids[0]], ["fox", "Fox"]], "difftag": [["feline", kids[0]], ["fox", "Fox"]], "implicit": None}[how]
        schemas.append({"k": "union", "name": sname, "kind": "oneOf", "members": [kids[0], "Fox"], "disc": {"prop": prop, "mapping": m2}})
        unions.append(sname)
    if nested:
        inner = mapping_of(mode, kids, tags) or [[t, k] for t, k in zip(tags, kids)]
        schemas.append({"k": "leaf", "name": "Gnu", "tagname": prop, "tag": tagprop(style, "gnu", 1, tags)})
        schemas.append({"k": "union", "name": "Outer", "kind": "oneOf", "members": [uname, "Gnu"],
                        "disc": {"prop": prop, "mapping": [[t, uname] for t, _ in inner] + [["gnu", "Gnu"]]}})
        unions.append("Outer")
    if refs == "unions":
        ops = [{"id": chr(97 + i), "uses": u} for i, u in enumerate(unions)]
    elif refs == "member":
        ops = [{"id": "a", "uses": kids[0]}]
    else:
        ops = [{"id": "a", "uses": unions[-1]}]
    return mk({"schemas": schemas, "ops": ops}, all_schemas)


def base_family(n, mode, form, override, basetag, apfalse, grandchild, refs, only, all_schemas, prop="kind"):
    kids = KIDS[:n]
    tags = [k.lower() for k in kids]
    m = mapping_of(mode, kids, tags)
    alltags = [t for t, _ in m] + (["kit"] if grandchild else [])
    schemas = [{"k": "base", "name": "Pet", "tag": tagprop(basetag, "pet", 1, alltags), "disc": {"prop": prop, "mapping": m}}]
    for i, k in enumerate(kids):
        s = {"k": "leaf", "name": k, "parents": ["Pet"], "form": form}
        if override and i == 0:
            s["tagname"], s["tag"] = prop, ["const", tags[0]]
        if apfalse and i == 0:
            s["apfalse"] = True
        schemas.append(s)
    if grandchild:
        schemas.append({"k": "leaf", "name": "Kit", "parents": [kids[0]], "form": form})
        m.append(["kit", "Kit"])
    if refs == "base":
        uses = ["Pet"]
    elif refs == "base+first":
        uses = ["Pet", kids[0]]
    elif refs == "base+all":
        uses = ["Pet"] + kids + (["Kit"] if grandchild else [])
    else:
        uses = [kids[0]]
    ops = [{"id": chr(97 + i), "uses": u} for i, u in enumerate(uses)]
    return mk({"schemas": schemas, "ops": ops}, all_schemas, only)


def structured(ctx):
    out = []
    for kind, n, mode, style, apfalse, second, nested, refs, alls in itertools.product(
            ["oneOf", "anyOf"], [1, 2, 3], ["full", "partial", "multi", "multi3", "implicit"], ["plain", "const", "enum", "mixed"], [False, True],
            [None, ("Zoo", "same"), ("Zoo", "difftag"), ("Ape", "difftag"), ("Zoo", "implicit"), ("Ape", "implicit")], [False, True],
            ["unions", "member", "last"], [False, True]):
        if mode == "partial" and n == 1:
            continue
        out.append(union_family(kind, n, mode, style, apfalse, second, nested, refs, alls))
    for n, mode, form, override, basetag, apfalse, grandchild, refs, only, alls in itertools.product(
            [1, 2, 3], ["full", "partial", "multi"], ["inline", "own"], [False, True], ["plain", "enumall"], [False, True], [False, True],
            ["base", "base+first", "base+all", "first"], [None, ["a"], ["b"]], [False, True]):
        if mode == "partial" and n == 1:
            continue
        out.append(base_family(n, mode, form, override, basetag, apfalse, grandchild, refs, only, alls))
    return out


# ------------------------------------------------------------------------------------------------
# random configurations

NAMES = ["Cat", "Dog", "Emu", "Fox", "Gnu", "Hen", "Yak", "Kit", "Ant", "Bee", "Owl2", "XRay"]   # (no name that collides after strip_parent_prefix, e.g. Pet+PetDog vs Dog: duplicate variant names are C09's business)
UNAMES = ["Pet", "Animal", "Zoo", "Ape", "Shape", "Any1", "Mix"]
TAGS = ["cat", "dog", "emu", "fox", "gnu", "kit", "Cat", "CAT", "a b", "x-1", "Ünï", "", "1", "cat2", "feline", "k\"q", "type", "null", "#/components/schemas/Cat"]
PROPS = ["kind", "type", "petType", "@type", "kind"]


def random_case(r):
    nleaf = r.randint(2, 5)
    leaves = r.sample(NAMES, nleaf)
    drop = r.choice(["type", "@type"])
    pool = [p for p in PROPS[:4] if p != drop]     # `type` and `@type` both sanitise to r#type: field-name dedup is C09's business
    props = [r.choice(pool)] if r.random() < 0.7 else r.sample(pool, 2)
    tagof = {n: (n.lower() if r.random() < 0.7 else r.choice(TAGS)) for n in leaves}
    schemas, discs = [], []
    leafs = {}
    for n in leaves:
        p = r.choice(props)
        style = r.choice(["plain", "plain", "const", "const", "enum", "enum1", "none"])
        s = {"k": "leaf", "name": n}
        if style != "none":
            s["tagname"] = p
            s["tag"] = {"plain": ["plain"], "const": ["const", tagof[n]], "enum": ["enum", [tagof[n], tagof[n] + "2", r.choice(TAGS)]], "enum1": ["enum", [tagof[n]]]}[style]
            if r.random() < 0.2:
                s["tagreq"] = False
        if r.random() < 0.15:
            s["apfalse"] = True
        if r.random() < 0.3:
            s["ownreq"] = True
        leafs[n] = s
    nunion = r.randint(0, 3)
    nbase = r.randint(0, 2) if nunion else r.randint(1, 2)
    unames = r.sample(UNAMES, nunion + nbase)
    bases = unames[nunion:]
    for b in bases:
        p = r.choice(props)
        kids = r.sample(leaves, r.randint(1, min(3, nleaf)))
        m = []
        for k in kids:
            if r.random() < 0.85:
                m.append([tagof[k], k])
            if r.random() < 0.2:
                m.append([r.choice(TAGS), k])
        if not m:
            m = [[tagof[kids[0]], kids[0]]]
        m = list({t: [t, x] for t, x in m}.values())
        for k in kids:
            leafs[k].setdefault("parents", [])
            if b not in leafs[k]["parents"] and len(leafs[k]["parents"]) < 2:
                leafs[k]["parents"].append(b)
                leafs[k]["form"] = r.choice(["inline", "own"])
        extra = r.sample(leaves, 1) if r.random() < 0.2 else []      # a mapping target that does not inherit from the base
        for k in extra:
            if k not in kids:
                m.append(["x" + tagof[k], k])
        tg = ["plain"] if r.random() < 0.7 else ["enum", sorted({t for t, _ in m} | {"pet"})]
        schemas.append({"k": "base", "name": b, "tag": tg, "disc": {"prop": p, "mapping": m}})
        discs.append(b)
    # a leaf must not inherit from itself through a base it is mapped by: parents are bases only -> acyclic
    for u in unames[:nunion]:
        p = r.choice(props)
        pool = leaves + [x for x in discs if r.random() < 0.3]
        members = r.sample(pool, r.randint(1, min(4, len(pool))))
        mode = r.choice(["full", "full", "partial", "multi", "implicit", "implicit", "extra"])
        if mode == "implicit":
            m = None
        else:
            m = [[tagof.get(x, x.lower()), x] for x in members]
            if mode == "partial" and len(m) > 1:
                m = m[:-1]
            if mode == "multi":
                m.append([r.choice(TAGS), r.choice(members)])
            if mode == "extra":
                m.append([r.choice(TAGS), r.choice(leaves)])
            m = list({t: [t, x] for t, x in m}.values())
        schemas.append({"k": "union", "name": u, "kind": r.choice(["oneOf", "oneOf", "anyOf"]), "members": members, "disc": {"prop": p, "mapping": m}})
        discs.append(u)
    schemas += [leafs[n] for n in leaves]
    r.shuffle(schemas)
    roots = [x for x in discs if r.random() < 0.8] + [x for x in leaves if r.random() < 0.25]
    if not roots:
        roots = [discs[0]]
    ops = [{"id": chr(97 + i), "uses": u} for i, u in enumerate(roots)]
    only = None
    if r.random() < 0.3 and len(ops) > 1:
        only = sorted(r.sample([o["id"] for o in ops], r.randint(1, len(ops) - 1)))
    return mk({"schemas": schemas, "ops": ops}, r.random() < 0.25, only)


def cases(ctx):
    r = ctx.rng
    st = structured(ctx)
    if ctx.quick:
        st = r.sample(st, 2500)
    out = list(st)
    for _ in range(2500 if ctx.quick else 9000):
        out.append(random_case(r))
    # schema names that are not Rust type names already (a fifth of the cases)
    for c in out:
        if c["op"] == "disc.run" and r.random() < 0.2:
            c["in"]["?spell"] = r.choice(SPELLS)
    return out


# ------------------------------------------------------------------------------------------------
# use sites: WHERE and HOW a discriminated union is written (op `disc.site`)

SITE_LEAVES = ["User", "Team", "Squad"]
# (pos, arr, wrap, on, typenull)
SPELLINGS = (
    [("named", a, w, on, False) for a in (False, True) for w, on in ((None, "inner"), ("oneOf", "inner"), ("anyOf", "inner"), ("oneOf", "outer"), ("anyOf", "outer"))]
    + [("named", False, None, "inner", True)]
    + [("field", False, w, on, False) for w, on in ((None, "inner"), ("oneOf", "inner"), ("anyOf", "inner"), ("oneOf", "outer"), ("anyOf", "outer"))]
    + [("field", True, None, "inner", False), ("field", False, None, "inner", True)]
    + [("io", a, w, on, False) for a in (False, True) for w, on in ((None, "inner"), ("oneOf", "inner"), ("anyOf", "outer"))]
    + [("io", False, None, "inner", True)])
# neighbour: (what, where, order)   what: plain | prop (other property name) | map (other mapping) ; where: field | samefield | named | items
NEIGHBOURS = [None] + [(what, where, order) for what in ("plain", "prop", "map") for where in ("field", "samefield", "named", "items") for order in ("before", "after")]


def site_leaves(n, style, alt):
    out = []
    for i, name in enumerate(SITE_LEAVES[:n]):
        t = name.lower()
        l = {"name": name, "tagname": "kind", "tag": tagprop(style, t, i, [x.lower() for x in SITE_LEAVES[:n]])}
        if alt:
            l["alt"] = "type2"
        out.append(l)
    return out


def site_mapping(mode, members):
    if mode == "implicit":
        return None
    m = [[x.lower(), x] for x in members]
    if mode == "multi":
        m.append(["crew", members[-1]])
    if mode == "partial":
        m = m[:-1]
    return m


def site_family(spelling, kind, n, style, mode, req, nb, all_schemas):
    pos, arr, wrap, on, typenull = spelling
    members = SITE_LEAVES[:n]
    alt = bool(nb and nb[0] == "prop")
    d = {"leaves": site_leaves(n, style, alt), "sites": []}
    main = {"id": "m", "pos": pos, "holder": "Mid", "field": "mid", "req": req, "kind": kind, "members": members, "arr": arr, "wrap": wrap, "typenull": typenull,
            "disc": {"prop": "kind", "mapping": site_mapping(mode, members), "on": on}}
    d["sites"].append(main)
    if nb:
        what, where, order = nb
        name = "Aaa" if order == "before" else "Zzz"
        disc = None
        if what == "prop":
            disc = {"prop": "type2", "mapping": [[x.lower(), x] for x in members], "on": "inner"}
        if what == "map":
            disc = {"prop": "kind", "mapping": [["x" + x.lower(), x] for x in members], "on": "inner"}
        t = {"id": "n", "kind": "oneOf", "members": list(reversed(members)), "disc": disc, "arr": where == "items", "wrap": None, "typenull": False}
        if where == "named":
            t.update(pos="named", holder=name)
        elif where == "samefield":
            if pos != "field":
                return None
            t.update(pos="field", holder="Mid", field=name.lower())
        else:
            t.update(pos="field", holder=name, field="f")
        d["sites"].append(t)
    return {"op": "disc.site", "in": {"d": d, "all": bool(all_schemas)}}


def site_structured():
    out = []
    for spelling, kind, (n, mode), style, nb in itertools.product(
            SPELLINGS, ["oneOf", "anyOf"], [(2, "full"), (2, "multi"), (2, "implicit"), (3, "full"), (3, "partial")], ["plain", "const", "enum"], NEIGHBOURS):
        c = site_family(spelling, kind, n, style, mode, spelling[0] == "field" and kind == "oneOf", nb, False)
        if c is not None:
            out.append(c)
    return out


HOLDERS = ["Aaa", "Mid", "Zzz", "Bin", "Audit", "Notification"]      # (not `Box`: a schema of that name shadows std Box in the emitted file — C09)
FIELDS = ["a", "mid", "z", "items", "target_kind"]


def site_random(r):
    n = r.randint(2, 4)
    names = r.sample(["User", "Team", "Squad", "Bot", "Org", "Crew"], n)
    props = ["kind"] if r.random() < 0.6 else ["kind", "type2"]
    leaves = []
    for x in names:
        style = r.choice(["plain", "plain", "const", "enum", "enum1"])
        tg = {"plain": ["plain"], "const": ["const", x.lower()], "enum": ["enum", [x.lower(), x.lower() + "2"]], "enum1": ["enum", [x.lower()]]}[style]
        l = {"name": x, "tagname": "kind", "tag": tg}
        if len(props) > 1:
            l["alt"] = "type2"
        if r.random() < 0.15:
            l["tagreq"] = False
        if r.random() < 0.15:
            l["ownreq"] = True
        leaves.append(l)
    sites, used_named, used_fields = [], set(), set()
    for k in range(r.randint(1, 5)):
        pos = r.choice(["named", "field", "field", "io"])
        members = r.sample(names, r.randint(2, min(3, n))) if r.random() < 0.5 else list(names[:2])
        if r.random() < 0.3:
            members = list(reversed(members))
        disc = None
        if r.random() < 0.75:
            prop = r.choice(props)
            mode = r.choice(["full", "full", "multi", "partial", "implicit", "odd"])
            m = site_mapping(mode if mode != "odd" else "full", members)
            if mode == "odd":
                m = [[r.choice(TAGS), x] for x in members]
                m = list({t: [t, x] for t, x in m}.values())
            if prop == "type2" and m is None:
                m = [[x.lower(), x] for x in members]
            disc = {"prop": prop, "mapping": m, "on": r.choice(["inner", "inner", "outer"])}
        arr = r.random() < 0.25
        wrap = r.choice([None, None, "oneOf", "anyOf"])
        if pos == "field" and arr and wrap:
            wrap = None          # `[array-of-union, null]` at a property: an enum around the array, outside the modelled grammar
        st = {"id": "s%d" % k, "pos": pos, "kind": r.choice(["oneOf", "oneOf", "anyOf"]), "members": members, "disc": disc, "arr": arr, "wrap": wrap,
              "typenull": (not arr and not wrap and r.random() < 0.15)}
        if pos == "named":
            free = [h for h in HOLDERS if h not in used_named and not any(h == f[0] for f in used_fields)]
            if not free:
                continue
            st["holder"] = r.choice(free)
            used_named.add(st["holder"])
        elif pos == "field":
            free = [(h, f) for h in HOLDERS for f in FIELDS if h not in used_named and (h, f) not in used_fields]
            st["holder"], st["field"] = r.choice(free)
            used_fields.add((st["holder"], st["field"]))
            st["req"] = r.random() < 0.4
        sites.append(st)
    # a body/response schema IDENTICAL to an inline schema written at a property (or as array items) whose own type is
    # never emitted — the property was typed serde_json::Value, a component union or an earlier inline union — gets the
    # PRE-COMPUTED name of that never-emitted type: dangling type name, the file does not compile.  A C01 matter
    # (DESIGN §12.9); such documents are not generated.
    def parts(x):
        j = site_union(x)
        out = [j]
        inner = j
        if x["wrap"]:
            inner = j[x["wrap"]][0]
            out.append(inner)
        if x["arr"]:
            out.append(inner["items"])
        return {json.dumps(p, sort_keys=True) for p in out}
    inline_parts = set()
    for x in sites:
        if x["pos"] == "field" or (x["pos"] == "named" and x["arr"]):
            inline_parts |= parts(x) if x["pos"] == "field" else {json.dumps(site_union(dict(x, arr=False, wrap=None)), sort_keys=True)}
    sites = [x for x in sites if not (x["pos"] == "io" and parts(x) & inline_parts)]
    if not sites:
        return site_random(r)
    nops = len({s["holder"] for s in sites if s["pos"] != "io"}) + sum(1 for s in sites if s["pos"] == "io")
    if nops > 9:
        return site_random(r)
    return {"op": "disc.site", "in": {"d": {"leaves": leaves, "sites": sites}, "all": r.random() < 0.25}}


def site_cases(ctx):
    r = ctx.rng
    st = site_structured()
    if ctx.quick:
        st = r.sample(st, 1800)
    return st + [site_random(r) for _ in range(1200 if ctx.quick else 6000)]


# ------------------------------------------------------------------------------------------------
# arena (tie A, thorough tier)

def instance(spec, leaf, prop, tag):
    """a JSON document that is an instance of component `leaf` with `prop` = tag"""
    S = spec["components"]["schemas"]

    def props_of(sch, seen):
        out = {}
        for part in sch.get("allOf", []):
            if "$ref" in part:
                n = part["$ref"].rsplit("/", 1)[1]
                if n in S and n not in seen:
                    out.update(props_of(S[n], seen | {n}))
            else:
                out.update(props_of(part, seen))
        out.update(sch.get("properties", {}))
        return out

    def value(p):
        if "$ref" in p:
            n = p["$ref"].rsplit("/", 1)[1]
            return value(S.get(n, {}))
        if "const" in p:
            return p["const"]
        if p.get("enum"):
            return p["enum"][0]
        return 1 if p.get("type") == "integer" else "x"

    doc = {k: value(v) for k, v in props_of(S.get(leaf, {}), {leaf}).items()}
    doc[prop] = tag
    return doc


def strip_header(code):
    lines = code.splitlines()
    i = 0
    while i < len(lines) and (lines[i].startswith("//!") or lines[i].startswith("#![") or not lines[i].strip()):
        i += 1
    return "\n".join(lines[i:]) + "\n"


def dbg_chain(s):
    """`Cat(Cat { … })` -> ["Cat", "Cat"]   (variant idents down to the struct name)"""
    out = []
    while True:
        m = re.match(r"\s*([A-Za-z_][A-Za-z0-9_]*)\s*\(", s)
        if not m:
            m2 = re.match(r"\s*([A-Za-z_][A-Za-z0-9_]*)", s)
            if m2:
                out.append(m2.group(1))
            return out
        out.append(m.group(1))
        s = s[m.end():]


def has_impl(code, name, trait):
    """does the emitted file give `name` the serde `trait` (derive or hand-written impl)?"""
    if re.search(r"impl(<'de>)?\s+serde::%s(<'de>)?\s+for\s+%s\b" % (trait, re.escape(name)), code):
        return True
    m = re.search(r"((?:#\[[^\]]*\]\s*)+)pub\s+(?:enum|struct)\s+%s\b" % re.escape(name), code)
    return bool(m and re.search(r"derive\([^)]*\b%s\b" % trait, m.group(1)))


def arena(ctx, subset):
    adir = os.path.join(vlib.CACHE, "arena-c14")
    src = os.path.join(adir, "src")
    shutil.rmtree(src, ignore_errors=True)
    os.makedirs(src, exist_ok=True)
    shutil.copyfile(os.path.join(vlib.VERIF, "arena", "c14", "Cargo.toml"), os.path.join(adir, "Cargo.toml"))
    shutil.copyfile(os.path.join(vlib.REPO, "Cargo.lock"), os.path.join(adir, "Cargo.lock"))
    sent = [prepare(c, arena=True) for c in subset]
    triples = ctx.run_impl(sent)
    answers = ctx.run_model(triples)
    ctx.ties["A"] = ctx.ties.get("A", 0) + len(subset)
    # the same cases are also classified (model==impl, judge) with helper constructors switched off
    ctx.classify(list(zip(subset, triples, answers)), tie="A")
    mods, calls, expect = [], [], {}
    for i, (c, t, a) in enumerate(zip(subset, triples, answers)):
        code = (t.get("impl") or {}).get("code")
        if not code or "probes" not in a:
            continue
        enums = (t["impl"]["emitted"] or {}).get("enums", {})
        if c["op"] == "disc.site":
            # use sites: the element document is decoded as the CORE type the site has in the emitted code
            arr_of = {}
            for st in c["in"]["d"]["sites"]:
                for sid in ([st["id"] + ".b", st["id"] + ".r"] if st["pos"] == "io" else [st["id"]]):
                    arr_of[sid] = bool(st.get("arr"))
            core_of = {x["id"]: x for x in t["impl"].get("sites") or []}
            sp = []
            for p in a["probes"]:
                si = core_of.get(p["site"])
                if not si or si["kind"] not in ("tag", "untagged") or p["dec"] == "untyped":
                    continue
                if not (has_impl(code, si["core"], "Deserialize") and has_impl(code, si["core"], "Serialize")):
                    continue
                sp.append(dict(p, ty=si["core"], wrap_array=arr_of.get(p["site"], False) and p["vec"] == 0))
            if not sp:
                continue
            open(os.path.join(src, f"g{i}.rs"), "w").write(strip_header(code))
            mods.append(f"mod g{i};")
            for j, p in enumerate(sp):
                doc = json.dumps(instance(sent[i]["in"]["spec"], p["leaf"], p["prop"], p["tag"]), ensure_ascii=False)
                if p["wrap_array"]:
                    doc = "[" + doc + "]"       # the schema says array, the emitted type is not one
                pid = f"{i}:{j}"
                h = "#" * (max((len(m) for m in re.findall(r'"(#*)', doc)), default=0) + 1)
                calls.append(f'  probe::<g{i}::{p["ty"]}>("{pid}", r{h}"{doc}"{h});')
                expect[pid] = (c, p, enums[p["ty"]], doc)
            continue
        probes = [p for p in a["probes"] if p["ty"] in enums and enums[p["ty"]].get("de") and enums[p["ty"]].get("ser")]
        if not probes:
            continue
        open(os.path.join(src, f"g{i}.rs"), "w").write(strip_header(code))
        mods.append(f"mod g{i};")
        for j, p in enumerate(probes):
            doc = json.dumps(instance(sent[i]["in"]["spec"], p["leaf"], p["prop"], p["tag"]), ensure_ascii=False)
            pid = f"{i}:{j}"
            h = "#" * (max((len(m) for m in re.findall(r'"(#*)', doc)), default=0) + 1)
            calls.append(f'  probe::<g{i}::{p["ty"]}>("{pid}", r{h}"{doc}"{h});')
            expect[pid] = (c, p, enums[p["ty"]], doc)
    main = open(os.path.join(vlib.VERIF, "arena", "c14", "src", "main.rs")).read()
    main = re.sub(r"// @@MODS@@[^\n]*", "\n".join(mods), main)
    main = re.sub(r"  // @@PROBES@@[^\n]*", lambda _m: "\n".join(calls), main)
    open(os.path.join(src, "main.rs"), "w").write(main)
    env = dict(vlib.ENV, CARGO_TARGET_DIR=os.path.join(vlib.CACHE, "arena-target"))
    with vlib.lock("cargo-arena-c14"):
        rc, out, err = vlib.sh(["cargo", "build", "--offline", "--bin", "arena-c14"], cwd=adir, timeout=3000, env=env)
        if rc != 0:
            ctx.breaks.append(vlib.Break("harness", "arena-build:c14", err))
            return
        rc, out, err = vlib.sh([os.path.join(vlib.CACHE, "arena-target", "debug", "arena-c14")], timeout=600)
    seen, bad = 0, []
    for l in out.splitlines():
        try:
            o = json.loads(l)
        except ValueError:
            continue
        c, p, en, doc = expect.pop(o["id"], (None, None, None, None))
        if p is None:
            continue
        seen += 1
        vty = {v[0]: (v[1][4:-1] if v[1].startswith("Box<") else v[1]) for v in en["variants"]}
        obs_accept = bool(o.get("ok"))
        obs_first = vty.get(dbg_chain(o.get("dbg", ""))[0]) if obs_accept and dbg_chain(o.get("dbg", "")) else None
        obs_retag = o.get("out", {}).get(p["prop"]) if obs_accept and isinstance(o.get("out"), dict) else None
        if "site" in p:
            # Sem.siteDecode: rejected | member ty (+ re-encoded tag); an array document against a non-array core type is rejected
            if p["wrap_array"] or p["dec"] == "rejected":
                agree = not obs_accept
            else:
                agree = (obs_accept, obs_first, obs_retag) == (True, p["dec"]["member"], p["retag"])
            if not agree:
                bad.append({"case": c, "probe": p, "doc": doc, "observed": o})
            continue
        exp_first = p["first"] if p["accept"] else None
        if p["valid"]:
            agree = (obs_accept, obs_first, obs_retag) == (p["accept"], exp_first, p["retag"] if p["accept"] else None)
        else:
            # the document is not an instance of the leaf schema (e.g. tag outside the leaf's own enum): Sem only
            # promises that what it rejects is rejected
            agree = p["accept"] or not obs_accept
        if not agree:
            bad.append({"case": c, "probe": p, "doc": doc, "observed": o})
    if expect:
        bad.append({"missing_probe_results": len(expect), "stderr": err[-300:]})
    ctx.extra["arena"] = {"specs": len(mods), "probes": seen, "sem_disagreements": len(bad), "examples": bad[:3]}
    ctx.note(f"arena: {len(mods)} compiled specs, {seen} decode/encode probes, {len(bad)} disagreements with Sem")
    if bad:
        ctx.breaks.append(vlib.Break("model", "sem-vs-arena:Oas3.Discr.decT/encodeTag", json.dumps(bad[:3], ensure_ascii=False)))


def run(ctx):
    proofs_ok, driver_ok = ctx.build_lean(["Oas3Model.Props.C14"])
    if proofs_ok:
        ctx.audit("Oas3Model.Props.C14")
        if not ctx.quick:
            ctx.leanchecker("Oas3Model.Props.C14")
    ctx.prepare = prepare
    if driver_ok and ctx.build_harness(["k_disc"]):
        corpus = vlib_corpus(ctx)
        allc = corpus + cases(ctx) + site_cases(ctx)
        B = 250
        batches = [allc[i:i + B] for i in range(0, len(allc), B)]
        # implementation + driver runs of the batches are independent processes: run them side by side, classify in order
        from concurrent.futures import ThreadPoolExecutor
        with ThreadPoolExecutor(max_workers=min(8, os.cpu_count() or 2)) as ex:
            def ev(batch):
                triples = ctx.run_impl([prepare(c) for c in batch])
                return list(zip(batch, triples, ctx.run_model(triples)))
            ctx._bin = "hk"
            futs = [ex.submit(ev, b) for b in batches]
            for b, f in zip(batches, futs):
                if len(ctx.violations) >= 3:
                    f.cancel()
                    continue
                ctx.ties["K+E"] = ctx.ties.get("K+E", 0) + len(b)
                ctx.classify(f.result(), tie="K+E")
        if not ctx.quick and not ctx.violations:
            st = structured(ctx)
            subset = (corpus + ctx.rng.sample(st, 160) + [random_case(ctx.rng) for _ in range(140)]
                      + ctx.rng.sample(site_structured(), 160) + [site_random(ctx.rng) for _ in range(120)])
            arena(ctx, subset)
    return ctx.finish(
        checker_cmd="lake build Oas3Model.Props.C14 && #print axioms on every theorem" + ("" if ctx.quick else " && leanchecker"),
        trusted_base=vlib.TRUSTED_BASE + [
            "Sem layer Oas3.Discr.decT/encodeTag/structAccepts (meaning of the emitted match-on-tag Deserialize, delegating Serialize, serde skip/skip_deserializing/default/deny_unknown_fields) — validated against compiled code by the arena tie in the thorough tier, not proved",
            "syn-based extraction of emitted enums/impls/struct attributes (harness/src/k_disc.rs); odd shapes are mapped to values the model never produces",
            "abstraction of the OpenAPI document to Oas3.Discr.Spec in the Lean driver (Driver/Discr.lean)",
            "use sites: Sem.firstAccepting/shapeAccepts/siteDecode (serde `untagged` = first variant whose struct accepts; required keys and enum-typed fields are read from the EMITTED structs, for the implementation's and for the model's verdict alike) — validated by the arena in the thorough tier; syn extraction of the type at a site (k_disc.rs::site_types); recognition of the site spelling in Driver/Discr.lean::siteSchOf (unrecognised spellings are refused, not defaulted)"],
        rule="bounded-exhaustive families {oneOf,anyOf} x {1..3 members} x {full,partial,multi-tag,3 tags,implicit-by-const} x {plain,const,enum-typed,mixed tag property} x {additionalProperties:false} x {second union sharing a child: same/different tag, before/after in name order, implicit} x {nested union} x {operation roots} x {all-schemas}; allOf bases {1..3 children} x {full,partial,multi} x {inline/own child form} x {child const override} x {enum-typed base tag} x {grandchild} x {operation roots: base only, base+first, base+all, child only} x {--only filters} x {all-schemas} (all ~24k in thorough, 2500 sampled in quick) + random configurations (2-5 leaves, 0-3 unions, 0-2 bases, exotic tags/property names, shuffled); each is generated in-process by /repo's generator, facts extracted with syn, compared with the model and JUDGED; thorough: 300+ specs compiled and executed in the arena; non-trivial = has a discriminator; distinct by input hash.  USE SITES (op disc.site): positions {component, property req/opt, request body + response} x spellings {union, type:[object,null], array of union, nullable wrapper oneOf/anyOf around union or array, discriminator inner/outer} x {oneOf,anyOf} x {full, multi-tag, implied, 3 members full/partial} x tag property {plain, const, enum-typed} x neighbours {none, plain / other property / other mapping twin over the same member set as component, property of another or the same holder, array items; before/after in name order} (15510 documents; 1800 sampled in quick) + random site documents (2-4 overlapping members, 1-5 sites); thorough: +280 site documents compiled, element documents decoded at the site's core type",
        assumptions=["schema names are valid Rust type names, or (a fifth of the disc.run cases) snake / kebab / camel / dotted spellings with the same Rust type name", "union members and mapping targets are `#/components/schemas/…` references; inline members are out of scope",
                     "a valid document for mapping entry tag↦S carries the tag and the properties of S; entries whose tag S's own tag property forbids (const/enum) have no valid document and are not judged"])
