"""C05 — generated server routes, extracts and responds exactly as the spec says."""
import json
import vlib
from checks.c09 import vlib_corpus
from checks.c04 import LAYOUTS, KEYS7
from specgen import ops_spec

METHODS = ["get", "put", "post", "delete", "options", "head", "patch", "trace"]
TEMPLATES = ["/pets", "/pets/{id}", "/pets/{petId}/toys", "/pets/{petId}/toys/{toy}", "/a-b/x-{y}", "/files/{name}.json", "/", "/v1/items/{id}:{act}", "/users/{user_id}",
             "/k/{type}/x", "/k/{fn}/{user-id}", "/m/{match}.{self}"]        # captures named like Rust keywords / needing a rename (F05-7)


def prepare(case):
    if case["op"] == "interop.req":
        from checks import c06
        return c06.prepare(case)
    if case["op"] == "route.dispatch":
        return case
    d = case["in"]
    return {"op": case["op"], "in": {"ops": d["ops"], "spec": ops_spec(d["ops"]), "mode": "server-mod", "cfg": {}}}


PTYPES = ["string", "string", "integer", "boolean", "number"]


def override_cases():
    """bounded-exhaustive: a path-item parameter overridden by the operation (type x required on both sides, query and
    header), next to a second operation of the same path item that only inherits it"""
    out = []
    for loc, nm in (("query", "revision"), ("header", "X-Rev")):
        for t0 in ("string", "integer", "boolean"):
            for t1 in ("string", "integer", "boolean"):
                for r0 in (False, True):
                    for r1 in (False, True):
                        if t0 == t1 and r0 == r1:
                            continue
                        base = {"name": nm, "in": loc, "level": "path", "type": t0, "required": r0}
                        idp = {"name": "id", "in": "path", "level": "path", "type": "integer"}
                        ops = [{"opid": "putReport", "method": "put", "path": "/reports/{id}", "params": [idp, base, {"name": nm, "in": loc, "level": "op", "type": t1, "required": r1}], "body": None, "responses": [["200", []]]},
                               {"opid": "getReport", "method": "get", "path": "/reports/{id}", "params": [idp, base], "body": None, "responses": [["200", []]]}]
                        out.append({"op": "server.op", "in": {"ops": ops}})
    return out


def rand_responses(r):
    keys = r.sample(KEYS7 + ["204", "302", "3XX", "500", "1XX"], r.randint(1, 4))
    return [[k, LAYOUTS[r.choice(["none", "json", "json", "text", "json+text"])] if r.random() < 0.9 else [["application/octet-stream", None]]] for k in keys]


def rand_case(r, overlap=False):
    n = r.randint(1, 5)
    ops, used = [], set()
    for i in range(n):
        for _ in range(10):
            path = r.choice(TEMPLATES if not overlap else ["/pets/{id}", "/pets/{id}/x", "/pets/mine", "/pets/{id}/{sub}", "/pets/mine/x"])
            m = r.choice(METHODS)
            if (path, m) not in used:
                used.add((path, m)); break
        else:
            continue
        tn = [t for t in __import__("re").findall(r"\{([^}]*)\}", path)]
        params = [{"name": t, "in": "path", "level": r.choice(["op", "path"]), "type": r.choice(["string", "integer"])} for t in tn]
        seenp = set()
        for _ in range(r.randint(0, 3)):
            nm, loc = r.choice(["q", "limit", "verbose", "X-Trace", "X-Request-Id", "sort-Order", "a.b"]), r.choice(["query", "header"])
            lvl = r.choice(["op", "path"])
            if (nm, loc) not in seenp:
                seenp.add((nm, loc))
                params.append({"name": nm, "in": loc, "level": lvl, "type": r.choice(PTYPES), "required": r.random() < 0.3})
                # the operation overrides a parameter of its path item (same name and location, another schema / required flag)
                if lvl == "path" and r.random() < 0.4:
                    params.append({"name": nm, "in": loc, "level": "op", "type": r.choice(PTYPES), "required": r.random() < 0.5})
        body = None
        if m in ("post", "put", "patch") and r.random() < 0.6:
            body = {"content": [[r.choice(["application/json", "text/plain", "application/x-www-form-urlencoded", "application/octet-stream"]), r.choice(["ref:Pet", "string"])]], "required": r.random() < 0.5}
        ops.append({"opid": r.choice(["get", "list", "create", "remove", "op"]) + r.choice(["Pet", "Toy", "Item", "Thing"]) + str(i), "method": m, "path": path, "params": params, "body": body, "responses": rand_responses(r)})
    # the same path-level parameter must be declared identically: keep the first declaration per (path,name)
    seen = {}
    for o in ops:
        for p in o["params"]:
            if p["level"] == "path":
                k = (o["path"], p["name"], p["in"])
                if k in seen:
                    p.update(seen[k])
                else:
                    seen[k] = dict(p)
    return {"op": "server.op", "in": {"ops": ops}}


def cases(ctx):
    r = ctx.rng
    out = []
    # templates with EMPTY segments (trailing slash, `//`): HTTP tells `/items/` from `/items` (finding F05-5)
    for t in ("/items/", "/a/{id}/", "/a//b"):
        tn = __import__("re").findall(r"\{([^}]*)\}", t)
        out.append({"op": "server.op", "in": {"ops": [{"opid": "one", "method": "get", "path": t, "params": [{"name": x, "in": "path", "level": "op", "type": "string"} for x in tn], "body": None, "responses": [["204", []]]}]}})
    for m in METHODS:
        out.append({"op": "server.op", "in": {"ops": [{"opid": "op" + m, "method": m, "path": "/a/{id}", "params": [{"name": "id", "in": "path", "level": "op", "type": "string"}], "body": None, "responses": [["200", LAYOUTS["json"]], ["404", []], ["default", LAYOUTS["json"]]]}]}})
    for k in KEYS7 + ["1XX", "3XX", "302", "299", "204"]:
        for lay in LAYOUTS:
            out.append({"op": "server.op", "in": {"ops": [{"opid": "one", "method": "get", "path": "/x", "params": [], "body": None, "responses": [[k, LAYOUTS[lay]]]}]}})
    # every named exact code: one row of the token -> http::StatusCode table each
    from checks.c04 import named_codes
    for code in named_codes():
        out.append({"op": "server.op", "in": {"ops": [{"opid": "one", "method": "get", "path": "/x", "params": [], "body": None, "responses": [[code, LAYOUTS["json"]], ["default", LAYOUTS["none"]]]}]}})
    oc = override_cases()
    out += oc if not ctx.quick else r.sample(oc, 30)
    for _ in range(250 if ctx.quick else 2500):
        out.append(rand_case(r, overlap=r.random() < 0.1))
    # what the handler is handed for an enum / scalar parameter in every location, under each enum mode: the server's
    # decoders (FromStr, Deserialize, header lookup) read through the request-side facts shared with C06
    from checks import c06
    for vals in c06.REQ_ENUMS:
        for em in ("merge", "preserve", "relaxed"):
            for loc in ("header", "query", "path"):
                for req in ((True, False) if loc != "path" else (True,)):
                    ps = [{"name": "e", "in": loc, "level": "op", "type": "enum", "enum": vals, "required": req}]
                    out.append({"op": "interop.req", "in": {"ops": [{"opid": "op", "method": "get", "path": "/e/{e}" if loc == "path" else "/e", "params": ps, "body": None}], "cfg": {"enum_mode": em}}})
    return out


# ---- the router semantics (Sem/Router.lean) against the real axum router: tables of shape-unique patterns with random method
# sets, requests built from the patterns (own path, neighbours, with / without trailing slash) under all eight methods -------
RT_PATTERNS = ["/", "/items", "/items/", "/a/{id}", "/a/{id}/", "/pets/{petId}/toys/{toy}", "/b/x-{id}", "/pets/mine", "/pets/{id}", "/pets/{id}/x", "/pets/mine/x",
               "/{a}/{b}", "/{a}", "/x-{a}/y", "/v1/users/{u}/posts", "/v1/users/me/posts", "/files/{name}", "/a/b/c", "/a/{id}/c", "/a/b/{c}"]
RT_METHODS = ["GET", "PUT", "POST", "DELETE", "OPTIONS", "HEAD", "PATCH", "TRACE"]


def _shape(p):
    import re
    return re.sub(r"\{[^}]*\}", "{}", p)


def route_cases(ctx):
    import re
    r = ctx.rng
    out = []
    vals = ["7", "mine", "x-1", "me", "b", "c", "x", "a%20b", "x-", "zz"]
    for _ in range(250 if ctx.quick else 5000):
        pats, seen = [], set()
        for p in r.sample(RT_PATTERNS, r.randint(1, 6)):
            if _shape(p) not in seen:
                seen.add(_shape(p)); pats.append(p)
        table, hid = [], 0
        for p in pats:
            ms = []
            for m in r.sample(RT_METHODS, r.randint(1, 4)):
                ms.append([m, hid]); hid += 1
            table.append({"pattern": p, "methods": ms})
        reqs = []
        for p in pats + r.sample(RT_PATTERNS, 2):
            path = re.sub(r"\{[^}]*\}", lambda _m: r.choice(vals), p)
            for q in {path, path.rstrip("/") or "/", path + ("" if path.endswith("/") else "/"), path + "/zz", "/" + r.choice(vals)}:
                for m in (RT_METHODS if r.random() < 0.3 else r.sample(RT_METHODS, 3)):
                    reqs.append({"method": m, "path": q})
        out.append({"op": "route.dispatch", "in": {"table": table, "requests": reqs}})
    return out


def run(ctx):
    ctx.translate(["status", "naming"])
    proofs_ok, driver_ok = ctx.build_lean(["Oas3Model.Props.C05"])
    if proofs_ok:
        ctx.audit("Oas3Model.Props.C05")
        if not ctx.quick:
            ctx.leanchecker("Oas3Model.Props.C05")
    ctx.prepare = prepare
    if driver_ok and ctx.build_harness(["k_gen"]):
        allc = vlib_corpus(ctx) + cases(ctx)
        B = 400
        for i in range(0, len(allc), B):
            ctx.classify(ctx.evaluate(allc[i:i + B]), tie="E")
            if len(ctx.violations) >= 3:
                break
        rc = route_cases(ctx)
        for i in range(0, len(rc), 100):
            ctx.classify(ctx.evaluate(rc[i:i + 100]), shrink=False, tie="K")
            if len(ctx.violations) >= 3:
                break
    return ctx.finish(
        checker_cmd="lake build Oas3Model.Props.C05 && #print axioms on every theorem" + ("" if ctx.quick else " && leanchecker"),
        trusted_base=vlib.TRUSTED_BASE + ["axum/matchit routing semantics (segment-wise match, conflicting patterns rejected) as stated in Model/Server.lean", "axum extractors and Json encoding are not modelled beyond which one is emitted", "syn extraction of router/handlers/IntoResponse"],
        rule="server-mod generation of specs with 1-5 operations over 9 path templates (several operations per path, overlapping templates, mixed segments), all 8 methods, path/query/header params (string/integer/number/boolean) at both levels incl. operation-level overrides of path-item parameters (bounded-exhaustive over type x required on both sides, query and header), every member of the three parameter structs judged against the merged set (key, Option-ness, inner type: locOk), bodies, and response sets over exact/range/default keys x 5 media layouts, every named exact code once; + enum parameters (8 value sets with upper / mixed / lower-case spellings) in header / query / path x 3 enum modes x required/optional through the request-side facts (what the server's FromStr / Deserialize / header lookup hand to the handler); router table, handler signatures and IntoResponse tables parsed with syn, compared with the model and judged; non-trivial = >=1 operation; distinct by input hash",
        assumptions=["trait-method doc lines (`* Path: `METHOD template``) identify the operation a handler belongs to"])
