"""C04 — generated client maps every HTTP response to the declared variant."""
import itertools, json
import vlib
from checks.c09 import vlib_corpus
from specgen import resp_spec

KEYS7 = ["200", "201", "404", "2XX", "4XX", "5XX", "default"]
LAYOUTS = {
    "none": [],
    "json": [["application/json", "ref:Pet"]],
    "text": [["text/plain", "string"]],
    "json+text": [["application/json", "ref:Pet"], ["text/plain", "string"]],
    "2json": [["application/json", "ref:Pet"], ["application/vnd.api+json", "integer"]],
}
MORE_MEDIA = [["application/xml", "ref:Err"], ["application/octet-stream", None], ["application/octet-stream", "string"], ["image/png", None],
              ["text/event-stream", "ref:Pet"], ["application/problem+json", "ref:Err"], ["text/html", "string"], ["application/json", None],
              ["application/json", "integer"], ["application/json", "boolean"], ["text/plain", "integer"], ["application/pdf", None], ["*/*", "ref:Pet"],
              ["application/x-www-form-urlencoded", "ref:Pet"], ["application/json; charset=utf-8", "ref:Pet"], ["text/csv", "ref:Pet"],
              # media types whose NAME falls under the content check of another category than their own
              ["image/svg+xml", "ref:Pet"], ["application/yaml", "string"], ["text/xml", "ref:Err"], ["application/soap+xml", "ref:Err"], ["audio/mpeg", None], ["application/jsonl", "string"]]
# every status code that has a named token in StatusCodeToken (kept in step with the regenerated table by `named_codes`)
def named_codes():
    import os, re
    t = open(os.path.join(vlib.VERIF, "lean/Oas3Model/Oas3Model/Gen/Status.lean"), encoding="utf-8").read().split("def codeTbl")[0]
    return sorted({c for c in re.findall(r'"[A-Za-z]+?(\d{3})"', t)})


ODD_KEYS = ["299", "100", "1XX", "3XX", "302", "418", "503", "599", "2xx", "Default", "+200", "0200", "99", "600", "1000", "20", "abc", "2XY", "", " 200", "65536", "００２"]


def mk(responses):
    return {"op": "resp.chain", "in": {"responses": responses}}


def prepare(case):
    """derived fields (the OpenAPI document) are rebuilt from the primary data at evaluation time,
    so that shrinking the primary data stays consistent."""
    if case["op"] != "resp.chain":
        return case
    r = case["in"]["responses"]
    return {"op": case["op"], "in": {"responses": r, "spec": resp_spec(r), "mode": "client-mod", "cfg": {}, "opreq": "OpRequest", "openum": "OpResponse"}}


def cases(ctx):
    r = ctx.rng
    out = [{"op": "resp.http_consts", "in": {}}]
    toks = KEYS7 + ODD_KEYS + [str(n) for n in range(95, 605, 1 if not ctx.quick else 7)] + ["%dXX" % i for i in range(0, 7)] + ["%dxx" % i for i in range(1, 6)]
    for t in toks:
        out.append({"op": "resp.tok", "in": {"s": t}})
    combos = []
    for k in range(len(KEYS7) + 1):
        for sub in itertools.combinations(KEYS7, k):
            for lname in LAYOUTS:
                combos.append((sub, lname))
    if ctx.quick:
        combos = r.sample(combos, 260)
    for sub, lname in combos:
        out.append(mk([[k, LAYOUTS[lname]] for k in sub]))
    # exact codes WITHOUT a named token (numeric fallback `Unknown(n)`) next to their range / default
    for code in ["299", "306", "418", "499", "599", "100", "226", "451", "511"]:
        rng = code[0] + "XX"
        for extra in ([], ["default"], [str(int(code[0]) * 100)]):
            for lay in ("none", "json"):
                out.append(mk([[k, LAYOUTS[lay]] for k in [code, rng] + extra]))
    # every named exact code on its own, and next to its range: one row of the token tables each
    for code in named_codes():
        out.append(mk([[code, LAYOUTS["json"]]]))
        out.append(mk([[code, LAYOUTS["none"]], [code[0] + "XX", LAYOUTS["json"]], ["default", LAYOUTS["none"]]]))
    # mixed layouts, extra media types, odd keys
    for _ in range(500 if ctx.quick else 5000):
        nk = r.randint(1, 5)
        pool = KEYS7 + (r.sample(ODD_KEYS, 3) if r.random() < 0.25 else ["302", "503", "3XX", "1XX", "500", "204"])
        keys = r.sample(pool, min(nk, len(pool)))
        resp = []
        for k in keys:
            if r.random() < 0.6:
                lay = LAYOUTS[r.choice(list(LAYOUTS))]
            else:
                lay, seen = [], set()
                for _ in range(r.randint(1, 3)):
                    m = r.choice(MORE_MEDIA + LAYOUTS["json+text"])
                    if m[0] not in seen:
                        seen.add(m[0]); lay.append(m)
            resp.append([k, lay])
        out.append(mk(resp))
    return out


# ---- decoding clause: "a body that cannot be decoded produces an error result" — the support crate's json_with_diagnostics
# on in-memory responses (op lex.decode): well-formed documents and the same with something before / after them ---------
DOCS = ['{"name":"x"}', '{"name":""}', '{"name":"a b"}', ' {"name":"x"} ', '{"name":"x"}\n', '[1,2]', '1', '"s"', 'null', 'true', '{}', '[]', '{"name":1}', '{"name":"x","y":1}', '{"nam":"x"}', '[{"name":"x"}]']
TAILS = ['', ' ', '\n', '\t\r\n', ' trailing garbage', '{"name":"y"}', ']', '}', ',', ' null', '1', '"', '\u0000', '//c', '/* c */', 'x', ' [', '\u00a0', ';']
HEADS = ['', ' ', '\n', 'x', ',', '//c\n', '\ufeff']


def decode_cases(ctx):
    r = ctx.rng
    out = []
    for d in DOCS:
        for t in TAILS:
            for ty in ("pet", "value"):
                out.append({"op": "lex.decode", "in": {"body": d + t, "ty": ty}})
        for h in HEADS:
            out.append({"op": "lex.decode", "in": {"body": h + d, "ty": r.choice(["pet", "value"])}})
    for _ in range(300 if ctx.quick else 6000):
        out.append({"op": "lex.decode", "in": {"body": r.choice(HEADS) + r.choice(DOCS) + r.choice(TAILS) + r.choice(["", "", r.choice(TAILS)]), "ty": r.choice(["pet", "value"])}})
    return out


def run(ctx):
    ctx.translate(["status"])
    proofs_ok, driver_ok = ctx.build_lean(["Oas3Model.Props.C04"])
    if proofs_ok:
        ctx.audit("Oas3Model.Props.C04")
        if not ctx.quick:
            ctx.leanchecker("Oas3Model.Props.C04")
    ctx.prepare = prepare
    if driver_ok and ctx.build_harness(["k_gen"]):
        allc = vlib_corpus(ctx) + cases(ctx) + decode_cases(ctx)
        B = 400
        for i in range(0, len(allc), B):
            ctx.classify(ctx.evaluate(allc[i:i + B]), tie="K+E")
            if len(ctx.violations) >= 3:
                break
    return ctx.finish(
        checker_cmd="lake build Oas3Model.Props.C04 && #print axioms on every theorem" + ("" if ctx.quick else " && leanchecker"),
        trusted_base=vlib.TRUSTED_BASE + ["status tables regenerated from status_codes.rs / http.rs / structs.rs on every run", "numeric values of http::StatusCode constants (hand table, compared with the http crate on every run)", "syn-based extraction of the emitted parse_response chain (harness/src/facts.rs)", "body decoding (serde / Diagnostics) is not modelled"],
        rule="every subset of {200,201,404,2XX,4XX,5XX,default} x 5 media layouts (all 640 thorough, 260 sampled quick) + every named exact code alone and next to its range + random key sets with mixed/odd media types and non-canonical keys, each generated in-process from /repo's sources; the emitted parse_response chain is parsed with syn, compared with the model's chain, and JUDGED for all 500 status codes x 10 content types; all StatusCodeToken::from_str keys 95..604; non-trivial = at least one response key; distinct by input hash",
        assumptions=["variant doc comments (`KEY: description`) identify the response key a variant was declared for", "reqwest::StatusCode::is_success etc. have their documented ranges"])
