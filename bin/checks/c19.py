"""C19 — text from the spec never turns into code."""
import copy, json, os
import vlib
from checks.c09 import vlib_corpus
from checks.c11 import FIXTURES
from specgen import ops_spec

PAYLOADS = ['q"uote', 'back\\slash', 'end */ comment', 'br]acket', '#[derive(Evil)]', 'fmt {} {0} {x}', '"# raw', 'line1\nline2', 'nul\x00byte', 'bidi‮evil', 'x' * 700, 'lit\\nnewline', '// slash', '/* open', 'tick`tick', '"); panic!("x', "single'quote", '{{double}}', '$crate::x', "\\u{41}", 'tab\there', 'cr\r\nlf', 'lone\rcr', 'endcr\r', 'x\npub mod injected {', '1.0\n}']
# line breaks end a `//` comment and a one-line attribute: always part of the quick sample
ALWAYS = ['line1\nline2', 'cr\r\nlf', 'x\npub mod injected {', 'lone\rcr']


# values of NON-string members written as strings: the text is the WHOLE value and starts like a number
# spellings Rust's float parser accepts that have no literal (`inff64` would be an identifier): always part of the quick sample
NUM_ALWAYS = ['inf', 'NaN', '-infinity']
NUM_PAYLOADS = NUM_ALWAYS + ['1; c19_marker(); 0', '1 + c19_marker()', '2 as u8', '3)] struct X; #[x(', '4 /* open', '5 // slash', '6"quote', '7i64, evil = 1', '-8; x()', '9.5; y()', '0x1f + z()']
# patterns that are valid regular expressions as they stand (inserted unescaped): raw-string / string terminators next to backslashes
PAT_PAYLOADS = [', code = "x"', ' + c19_marker()', '\\d"# + c19_marker() + r#"\\d', '\\w"#b', 'a"#b', '\\s"', 'x"##y\\d', '\\d"; c19_marker(); "', 'r#"\\d', '\\\\"#', '\\d\\"#']


# ---- lexical carriers (K tie `lex.*`): the generator's escaper / doc-line builders and what proc_macro2, prettyplease
# and the Rust lexer (syn) make of them, against Model/Lexical.lean ---------------------------------------------------
LEX_ALPHA = ['a', 'Z', '7', '0', ' ', '"', "'", '\\', '\n', '\r', '\t', '\x00', '\x7f', '\x1b', '{', '}', '/', '*', '#', '!', '`', '$',
             'é', '\u0301', '\u200e', '\u202e', '\ufeff', '\uffff', '\U0010ffff', '中', '😀', '\\n', '\r\n', '*/', '/*', '//', '"#', ']']


def lex_texts(ctx):
    r = ctx.rng
    out = list(PAYLOADS) + list(PAT_PAYLOADS) + list(NUM_PAYLOADS)
    out += ['', ' ', '  trailing  ', 'a\rb', 'a\r', '\rb', 'a\r\rb', 'a\r\nb\r', 'x\r\n', '\n', '\n\n', 'a\n', 'a\n\nb', '/slash first', '*star', '/** x */', '\x000', '\x007\x008', "it's", '\\', '\\\\n', 'a\\nb\\n', '\\u{41}', '\\x41', '\\\n cont']
    for a in LEX_ALPHA:
        out.append(a); out.append('x' + a + 'y'); out.append(a + a)
    n = 1500 if ctx.quick else 30000
    for _ in range(n):
        k = r.randint(1, 7)
        out.append(''.join(r.choice(LEX_ALPHA) if r.random() < 0.7 else r.choice(['word', 'two words', '1.5', 'pub fn x() {}', '#[doc(hidden)]']) for _ in range(k)))
    seen, uniq = set(), []
    for t in out:
        if t not in seen:
            seen.add(t); uniq.append(t)
    return uniq


def lex_cases(ctx):
    r = ctx.rng
    texts = lex_texts(ctx)
    cases = []
    for t in texts:
        cases.append({"op": "lex.lit", "in": {"s": t}})
        cases.append({"op": "lex.escape", "in": {"s": t}})
        cases.append({"op": "lex.doc", "in": {"s": t}})
    for _ in range(400 if ctx.quick else 6000):
        d = {"method": r.choice(["GET", "POST", "DELETE"]), "path": r.choice(["/pets", "/pets/{id}", "/a b/{x}.json", "/"])}
        if r.random() < 0.8:
            d["summary"] = r.choice(texts)
        if r.random() < 0.8:
            d["description"] = r.choice(texts)
        cases.append({"op": "lex.opdoc", "in": d})
    return cases


def base_spec_text():
    s = ops_spec([{"opid": "listPets", "method": "get", "path": "/pets/{id}", "params": [{"name": "id", "in": "path", "level": "op", "type": "string"}, {"name": "limit", "in": "query", "level": "op", "type": "integer"}, {"name": "X-Trace", "in": "header", "level": "op", "type": "string"}], "body": None, "responses": [["200", [["application/json", "ref:Pet"]]], ["default", [["application/json", "ref:Err"]]]]},
                  {"opid": "createPet", "method": "post", "path": "/pets", "params": [], "body": {"content": [["application/json", "ref:Pet"]], "required": True}, "responses": [["201", [["application/json", "ref:Pet"]]]]}])
    pet = s["components"]["schemas"]["Pet"]
    pet["description"] = "TXT"; pet["title"] = "TXT"
    pet["properties"]["name"].update({"description": "TXT", "default": "TXT", "example": "TXT", "pattern": "TXT"})
    pet["properties"]["kind"] = {"type": "string", "enum": ["cat", "TXT"], "description": "TXT"}
    # a member named like a Rust keyword (its field is `r#type`): the regex constant is looked up by field name
    pet["properties"]["type"] = {"type": "string", "pattern": "TXT"}
    pet["properties"]["fixed"] = {"type": "string", "const": "TXT"}
    pet["properties"]["count"] = {"type": "integer", "default": "TXT"}
    pet["properties"]["count32"] = {"type": "integer", "format": "int32", "default": "TXT"}
    pet["properties"]["ucount"] = {"type": "integer", "format": "uint32", "minimum": 0, "default": "TXT"}
    pet["properties"]["ratio"] = {"type": "number", "default": "TXT"}
    pet["properties"]["flag"] = {"type": "boolean", "default": "TXT"}
    pet["properties"]["cfix"] = {"type": "integer", "const": "TXT"}
    pet["properties"]["cone"] = {"type": "integer", "enum": ["TXT"]}
    s["info"]["title"] = "TXT"; s["info"]["description"] = "TXT"
    s["servers"] = [{"url": "https://example.com/TXT"}]
    op = s["paths"]["/pets/{id}"]["get"]
    op["summary"] = "TXT"; op["description"] = "TXT"
    op["parameters"][1]["description"] = "TXT"
    op["responses"]["200"]["description"] = "TXT"
    s["components"]["schemas"]["U"] = {"oneOf": [{"$ref": "#/components/schemas/Pet"}, {"$ref": "#/components/schemas/Err"}], "discriminator": {"propertyName": "m", "mapping": {"TXT": "#/components/schemas/Pet", "e": "#/components/schemas/Err"}}}
    s["paths"]["/u"] = {"get": {"operationId": "getU", "responses": {"200": {"description": "ok", "content": {"application/json": {"schema": {"$ref": "#/components/schemas/U"}}}}}}}
    # TWINS: places that carry the SAME text and the same structure elsewhere, so that a merge / de-duplication decision
    # keyed on a text flips when only one of the two changes.  Two operations with one response shape …
    for p, oid in (("/twina", "getTwinA"), ("/twinb", "getTwinB")):
        s["paths"][p] = {"get": {"operationId": oid, "summary": "TXT", "responses": {
            "200": {"description": "TXT", "content": {"application/json": {"schema": {"$ref": "#/components/schemas/Err"}}}},
            "404": {"description": "TXT"}}}}
    # … and two inline objects of one shape at different holders
    inl = lambda: {"type": "object", "description": "TXT", "properties": {"a": {"type": "string", "description": "TXT", "example": "TXT"}, "k": {"type": "string", "enum": ["x", "TXT"]}}}
    s["components"]["schemas"]["H1"] = {"type": "object", "properties": {"p": inl()}}
    s["components"]["schemas"]["H2"] = {"type": "object", "properties": {"p": inl()}}
    s["paths"]["/h"] = {"get": {"operationId": "getH", "responses": {"200": {"description": "ok", "content": {"application/json": {"schema": {"$ref": "#/components/schemas/H1"}}}},
                                                                      "201": {"description": "ok", "content": {"application/json": {"schema": {"$ref": "#/components/schemas/H2"}}}}}}}
    return s


# (path into the spec, derives identifiers?, carrier)
POSITIONS = [
    (("components", "schemas", "Pet", "description"), False, "doc"),
    (("components", "schemas", "Pet", "title"), False, "none"),
    (("components", "schemas", "Pet", "properties", "name", "description"), False, "doc"),
    (("components", "schemas", "Pet", "properties", "name", "default"), False, "lit"),
    (("components", "schemas", "Pet", "properties", "name", "example"), False, "doc"),
    (("components", "schemas", "Pet", "properties", "name", "pattern"), False, "lit"),
    (("components", "schemas", "Pet", "properties", "kind", "enum", 1), True, "lit"),
    (("components", "schemas", "Pet", "properties", "kind", "description"), False, "doc"),
    (("components", "schemas", "Pet", "properties", "fixed", "const"), False, "lit"),
    (("info", "title"), True, "doc"),
    (("info", "description"), False, "doc"),
    (("info", "version"), False, "doc"),
    (("servers", 0, "url"), False, "lit"),
    (("paths", "/pets/{id}", "get", "summary"), False, "doc"),
    (("paths", "/pets/{id}", "get", "description"), False, "doc"),
    (("paths", "/pets/{id}", "get", "parameters", 1, "description"), False, "doc"),
    (("paths", "/pets/{id}", "get", "responses", "200", "description"), False, "doc"),
    (("components", "schemas", "U", "discriminator", "mapping"), True, "lit"),
    (("components", "schemas", "Pet", "properties", "count", "default"), False, "none"),
    (("components", "schemas", "Pet", "properties", "count32", "default"), False, "none"),
    (("components", "schemas", "Pet", "properties", "ucount", "default"), False, "none"),
    (("components", "schemas", "Pet", "properties", "ratio", "default"), False, "none"),
    (("components", "schemas", "Pet", "properties", "flag", "default"), False, "none"),
    (("components", "schemas", "Pet", "properties", "cfix", "const"), False, "none"),
    (("components", "schemas", "Pet", "properties", "cone", "enum", 0), False, "none"),
    (("paths", "/pets/{id}", "get", "parameters", 1, "schema", "default"), False, "none"),
    # (appended last so that the indices recorded in corpus / findings stay valid) a keyword-named member with a pattern
    (("components", "schemas", "Pet", "properties", "type", "pattern"), False, "lit"),
]
# twin positions: (path, carrier, kind) — the inert run keeps the text EQUAL to its twin's, the payload run changes one side
TWINS = [
    # (response enums of one shape are merged and the second operation's response texts are not emitted at all: no carrier)
    (("paths", "/twinb", "get", "responses", "404", "description"), "none", "response"),
    (("paths", "/twinb", "get", "responses", "200", "description"), "none", "response"),
    (("paths", "/twinb", "get", "summary"), "doc", "response"),
    (("components", "schemas", "H2", "properties", "p", "description"), "doc", "inline"),
    (("components", "schemas", "H2", "properties", "p", "properties", "a", "description"), "doc", "inline"),
    (("components", "schemas", "H2", "properties", "p", "properties", "a", "example"), "doc", "inline"),
]
N_TEXT = 18                      # positions [0, N_TEXT) carry text; the rest are non-string members / parameters
PATTERN_POS = 5
KW_PATTERN_POS = len(POSITIONS) - 1  # Pet.type.pattern (keyword-named member), a TEXT position
PATTERN_POSITIONS = (5, KW_PATTERN_POS)


def setp(s, path, val):
    v = s
    for p in path[:-1]:
        v = v[p]
    v[path[-1]] = val


def inert(s):
    t = json.dumps(s).replace("TXT", "inert")
    return json.loads(t)


def prepare(case):
    d = case["in"]
    base = inert(base_spec_text())
    if d.get("twin") is not None:
        path, carrier, kind = TWINS[d["twin"]]
        a, b = copy.deepcopy(base), copy.deepcopy(base)
        setp(b, path, "inert" + d["payload"])           # `a` keeps the twin's text
        return {"op": case["op"], "in": {"spec_inert": a, "spec_payload": b, "payload": d["payload"], "position": "/".join(map(str, path)), "derives_ident": False,
                                         "carrier": carrier, "twin": kind, "mode": d.get("mode", "client-mod"), "cfg": d.get("cfg", {})}}
    path, ident, carrier = POSITIONS[d["pos_index"]]
    a, b = copy.deepcopy(base), copy.deepcopy(base)
    pay = d["payload"]
    if path[-1] == "mapping":
        m = a["components"]["schemas"]["U"]["discriminator"]["mapping"]; m["inertK"] = m.pop("inert")
        mb = b["components"]["schemas"]["U"]["discriminator"]["mapping"]; mb["inertK" + pay] = mb.pop("inert")
    elif d.get("kind") == "num":
        setp(a, path, "inertK"); setp(b, path, pay)       # the whole value; neither is a number
    elif path[-1] == "pattern" and d.get("kind") == "rawpat":
        setp(a, path, "inertK"); setp(b, path, "inertK" + pay)
    elif path[-1] == "pattern":
        import re
        setp(a, path, "inertK"); setp(b, path, "inertK" + re.escape(pay).replace("\\ ", " "))
    elif path[-2:] == ("servers", 0) or path[-1] == "url":
        import urllib.parse
        setp(a, path, "https://example.com/inertK"); setp(b, path, "https://example.com/inertK" + urllib.parse.quote(pay, safe="{}'$"))
    else:
        setp(a, path, "inertK"); setp(b, path, "inertK" + pay)
    pl = pay
    if path[-1] == "pattern" and d.get("kind") != "rawpat":
        import re
        pl = re.escape(pay).replace("\\ ", " ")
    if path[-1] == "url":
        import urllib.parse
        pl = urllib.parse.quote(pay, safe="{}'$")
    mode = d.get("mode", "client-mod")
    if mode == "server-mod" and (path[-1] in ("url", "mapping")):
        carrier = "none"        # BASE_URL and tag-dispatch arms are emitted for the client only
    return {"op": case["op"], "in": {"spec_inert": a, "spec_payload": b, "payload": pl, "position": "/".join(map(str, path)), "derives_ident": ident, "carrier": carrier, "mode": d.get("mode", "client-mod"), "cfg": d.get("cfg", {})}}


def run(ctx):
    ctx.translate(["panicsites"])
    proofs_ok, driver_ok = ctx.build_lean(["Oas3Model.Props.C19"])
    if proofs_ok:
        ctx.audit("Oas3Model.Props.C19")
        if not ctx.quick:
            ctx.leanchecker("Oas3Model.Props.C19")
    r = ctx.rng
    if driver_ok and ctx.build_harness(["k_gen"]):
        # carriers first: every text through the real escaper / doc builders / proc_macro2 / prettyplease / syn vs the model
        ctx.prepare = None
        lc = [c for c in vlib_corpus(ctx) if c["op"].startswith("lex.")] + lex_cases(ctx)
        for i in range(0, len(lc), 2000):
            ctx.classify(ctx.evaluate(lc[i:i + 2000]), tie="K")
            if len(ctx.violations) >= 3:
                break
        ctx.prepare = prepare
        cases = [c for c in vlib_corpus(ctx) if c["op"] == "inject.pair"]      # witnesses of the listed findings first
        for pi in range(len(POSITIONS)):
            kind = "text" if (pi < N_TEXT or pi == KW_PATTERN_POS) else "num"
            pool = PAYLOADS if kind == "text" else NUM_PAYLOADS
            pays = pool if not ctx.quick else (ALWAYS + r.sample([x for x in pool if x not in ALWAYS], 5) if kind == "text" else NUM_ALWAYS + r.sample([x for x in pool if x not in NUM_ALWAYS], 3))
            plan = [(kind, x) for x in pays]
            if pi in PATTERN_POSITIONS:
                plan += [("rawpat", x) for x in PAT_PAYLOADS]
            for kind, pay in plan:
                modes = ["client-mod", "server-mod"] if not ctx.quick else [r.choice(["client-mod", "server-mod"])]
                for mode in modes:
                    cfg = {"enum_mode": r.choice(["merge", "relaxed"])}
                    if kind == "num" and r.random() < 0.5:
                        cfg["builders"] = True
                    cases.append({"op": "inject.pair", "in": {"pos_index": pi, "payload": pay, "kind": kind, "mode": mode, "cfg": cfg}})
        # twins: an inert-looking edit of ONE side ("2"), and a few payloads
        for ti in range(len(TWINS)):
            for pay in ["2", " (edited)"] + (r.sample(PAYLOADS, 2) if ctx.quick else PAYLOADS):
                for mode in (["client-mod", "server-mod", "types"] if not ctx.quick or pay == "2" else [r.choice(["client-mod", "server-mod"])]):
                    cases.append({"op": "inject.pair", "in": {"twin": ti, "payload": pay, "mode": mode, "cfg": {"enum_mode": r.choice(["merge", "relaxed"])}}})
        ctx.shrunk = 99      # positions/payloads are already minimal
        B = 60
        for i in range(0, len(cases), B):
            ctx.classify(ctx.evaluate(cases[i:i + B]), shrink=False, tie="E")
            if len(ctx.violations) >= 3:
                break
    return ctx.finish(
        checker_cmd="lake build Oas3Model.Props.C19 && #print axioms on every theorem" + ("" if ctx.quick else " && leanchecker"),
        trusted_base=vlib.TRUSTED_BASE + ["syn/prettyplease printing of string literals and doc attributes (token -> text) is trusted; the comparison is on tokens re-parsed from the emitted text", "which macro arguments are format strings is recognised by macro name (write!/format!/println!/…)"],
        rule="a catalogue of 24 injection payloads (+ 11 number-like texts as the whole value of non-string members and parameters: default/const/single enum of integer, int32, uint32, number, boolean; + 9 valid regular expressions with string / raw-string terminators next to backslashes, inserted unescaped as `pattern`) (quote/escape breakers, comment terminators, attribute syntax, format braces, raw-string terminators, newlines, NUL, bidi controls, long text, `\\n` escapes) substituted at 18 text-bearing positions (descriptions, summaries, titles, enum/const/default/example values, pattern, server URL, response descriptions, discriminator mapping keys) of a generated spec, client-mod and server-mod, merge and relaxed enum modes (all thorough; the three line-break payloads + 5 sampled x 1 mode quick), each + TWIN positions (two operations with one response shape and equal descriptions / summary; two inline objects of one shape with equal description / member description / example at different holders: one side edited, the inert run keeps both equal) compared with the same spec carrying inert text: token skeleton with literals and docs erased must be identical (identifier-deriving positions: identical shape), every literal used as a format string must print itself, the payload must be recoverable from the literals/docs; non-trivial = every pair; distinct by (position, payload, mode)")
