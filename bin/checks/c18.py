"""C18 — presentation flags and modes never change wire behaviour."""
import itertools, json, os
import vlib
from checks.c09 import vlib_corpus
from checks.c11 import FIXTURES
from specgen import ops_spec
from graphgen import graph_spec

LATTICE = [dict(vis=v, no_helpers=nh, builders=b, all_headers=ah) for v in ("public", "crate", "file") for nh in (False, True) for b in (False, True) for ah in (False, True)]


def corpus_specs(ctx):
    r = ctx.rng
    out = []
    fx = FIXTURES if not ctx.quick else r.sample(FIXTURES, 3)
    for f in fx:
        p = os.path.join(vlib.REPO, "crates/oas3-gen/fixtures", f)
        if os.path.exists(p):
            out.append((f, json.load(open(p))))
    out.append(("gen_graph", graph_spec(["A", "B", "C"], [("A", "opt", "B"), ("B", "arr", "C"), ("C", "oneOf", "A"), ("C", "oneOf", "B"), ("A", "map", "C")], ["A", "C"])))
    s = ops_spec([{"opid": "listPets", "method": "get", "path": "/pets/{id}", "params": [{"name": "id", "in": "path", "level": "op", "type": "string"}, {"name": "limit", "in": "query", "level": "op", "type": "integer"}, {"name": "X-Trace", "in": "header", "level": "op", "type": "string"}], "body": None, "responses": [["200", [["application/json", "ref:Pet"]]], ["default", [["application/json", "ref:Err"]]]]},
                  {"opid": "createPet", "method": "post", "path": "/pets", "params": [], "body": {"content": [["application/json", "ref:Pet"]], "required": True}, "responses": [["201", [["application/json", "ref:Pet"]]]]}])
    s["components"]["schemas"]["Pet"]["properties"]["kind"] = {"type": "string", "enum": ["cat", "dog"], "default": "cat"}
    s["components"]["schemas"]["Pet"]["properties"]["build"] = {"type": "integer", "default": 3, "minimum": 1}
    s["components"]["headers"] = {"X-Rate": {"schema": {"type": "integer"}}}
    s["components"]["schemas"]["U"] = {"oneOf": [{"$ref": "#/components/schemas/Pet"}, {"$ref": "#/components/schemas/Err"}]}
    s["paths"]["/u"] = {"get": {"operationId": "getU", "responses": {"200": {"description": "ok", "content": {"application/json": {"schema": {"$ref": "#/components/schemas/U"}}}}}}}
    # a discriminated union (tag dispatch is wire behaviour, helpers are not)
    for n, tag in (("Circle", "circle"), ("Square", "square")):
        s["components"]["schemas"][n] = {"type": "object", "required": ["kind"], "properties": {"kind": {"type": "string", "const": tag}, "size": {"type": "integer"}}}
    s["components"]["schemas"]["Shape"] = {"oneOf": [{"$ref": "#/components/schemas/Circle"}, {"$ref": "#/components/schemas/Square"}],
                                            "discriminator": {"propertyName": "kind", "mapping": {"circle": "#/components/schemas/Circle", "square": "#/components/schemas/Square"}}}
    s["paths"]["/shape"] = {"get": {"operationId": "getShape", "responses": {"200": {"description": "ok", "content": {"application/json": {"schema": {"$ref": "#/components/schemas/Shape"}}}}}}}
    # component headers next to the ones operations use, also with names that map to one constant
    s["components"]["parameters"] = {"LegacyTrace": {"name": "X_Trace_Id", "in": "header", "required": True, "schema": {"type": "string"}},
                                      "Trace": {"name": "X-Trace-Id", "in": "header", "schema": {"type": "string"}},
                                      "ReqId": {"name": "X-Request-Id", "in": "header", "schema": {"type": "string"}}}
    s["paths"]["/u"]["get"]["parameters"] = [{"$ref": "#/components/parameters/LegacyTrace"}]
    # … and in the other order: the hyphen spelling is the one in use, the underscore spelling is component-only
    s["components"]["parameters"]["Span"] = {"name": "X-Span-Id", "in": "header", "schema": {"type": "string"}}
    s["components"]["parameters"]["LegacySpan"] = {"name": "X_Span_Id", "in": "header", "schema": {"type": "string"}}
    s["components"]["parameters"]["UpperSpan"] = {"name": "X-SPAN-ID", "in": "header", "schema": {"type": "string"}}
    s["paths"]["/shape"]["get"]["parameters"] = [{"$ref": "#/components/parameters/Span"}]
    # one parameter NAME in several locations of one operation (flattened constructor arguments collide)
    s["paths"]["/users/{id}/followers"] = {"get": {"operationId": "listFollowers", "parameters": [
        {"name": "id", "in": "path", "required": True, "schema": {"type": "string"}}, {"name": "id", "in": "query", "schema": {"type": "string"}},
        {"name": "id", "in": "header", "schema": {"type": "string"}}, {"name": "body", "in": "query", "schema": {"type": "integer"}}],
        "responses": {"204": {"description": "none"}}},
        "put": {"operationId": "putFollowers", "parameters": [{"name": "id", "in": "path", "required": True, "schema": {"type": "string"}}, {"name": "body", "in": "query", "schema": {"type": "integer"}}],
                "requestBody": {"required": True, "content": {"application/json": {"schema": {"$ref": "#/components/schemas/Pet"}}}}, "responses": {"204": {"description": "none"}}}}
    out.append(("gen_ops", s))
    # F18-2: union members (helper constructors convert them EARLY) whose array property has inline object items that are
    # structurally identical to inline items elsewhere; holders before and after the union member in name order
    def items_obj():
        return {"type": "array", "items": {"type": "object", "properties": {"q": {"type": "integer"}}}}
    for tag, (member, other) in {"a": ("Zed", "Beta"), "b": ("Beta", "Zed"), "c": ("Mid", "Mad")}.items():
        sh = {"Alpha": {"oneOf": [{"$ref": "#/components/schemas/" + member}, {"$ref": "#/components/schemas/Yak"}]},
              "Yak": {"type": "object", "properties": {"y": {"type": "string"}}},
              member: {"type": "object", "properties": {"things": items_obj()}},
              other: {"type": "object", "properties": {"entries": items_obj()}}}
        d = ops_spec([{"opid": "getA", "method": "get", "path": "/a", "params": [], "body": None, "responses": [["200", [["application/json", "ref:Alpha"]]]]},
                      {"opid": "getB", "method": "get", "path": "/b", "params": [], "body": None, "responses": [["200", [["application/json", "ref:" + other]]]]}])
        d["components"]["schemas"] = sh
        out.append(("gen_inline_items_" + tag, d))
    # F18-3: a `pattern` on a request-side member (query parameter) and on a schema member used in a request body
    rx = ops_spec([{"opid": "op0", "method": "post", "path": "/a", "params": [{"name": "sort", "in": "query", "level": "op", "type": "string"}], "body": {"content": [["application/json", "ref:Pet"]], "required": True}, "responses": [["200", [["application/json", "ref:Pet"]]]]}])
    rx["paths"]["/a"]["post"]["parameters"][0]["schema"]["pattern"] = "^[a-z]+$"
    rx["components"]["schemas"]["Pet"]["properties"]["name"]["pattern"] = "^x+$"
    out.append(("gen_regex_param", rx))
    # single-feature documents and random documents of the feature grammar (the corpus of C01)
    from checks.c01 import FEATURES
    names = sorted(FEATURES) if not ctx.quick else r.sample(sorted(FEATURES), 8)
    for f in names:
        out.append(("feat_" + f, FEATURES[f]))
    import featgen
    for i in range(6 if ctx.quick else 60):
        out.append(("rand_%d" % i, featgen.rand_spec(r)))
    return out


def shapes_of(name, spec):
    """document shapes around one corpus spec: as it is, without operations (`paths: {}`), operations only under `webhooks`,
    a path item without operations, and --all-schemas-like corner: components only"""
    import copy
    out = [("as-is", spec)]
    a = copy.deepcopy(spec); a["paths"] = {}; a.pop("webhooks", None); out.append(("no-paths", a))
    b = copy.deepcopy(spec); b["webhooks"] = {"evt" + str(i): v for i, v in enumerate((spec.get("paths") or {}).values())}; b["paths"] = {}; out.append(("webhooks-only", b))
    c = copy.deepcopy(spec); c["paths"] = {"/empty": {}}; c.pop("webhooks", None); out.append(("empty-path-item", c))
    d = copy.deepcopy(spec); d.pop("paths", None); d.pop("webhooks", None); out.append(("paths-absent", d))
    return out


def cli_cases(ctx):
    r = ctx.rng
    specs = [x for x in corpus_specs(ctx) if x[0].startswith(("gen_", "petstore"))][:4 if ctx.quick else 12]
    flagsets = [[], ["--all-schemas"], ["--no-helpers"], ["--enable-builders"], ["--all-headers"], ["--visibility", "crate"], ["--visibility", "file", "--no-helpers", "--enable-builders", "--all-headers"]]
    out = []
    keptdir = ctx.scratch("c18kept")
    for name, spec in specs:
        for shape, doc in shapes_of(name, spec):
            fs = flagsets if not ctx.quick else [[]] + r.sample(flagsets[1:], 2)
            for flags in fs:
                d = ctx.scratch("c18cli")
                p = os.path.join(d, "spec.json")
                json.dump(doc, open(p, "w"))
                rc1, o1, e1, _ = ctx.run_cli(["generate", "types", "-i", p, "-o", os.path.join(d, "t.rs")] + flags)
                rc2, o2, e2, _ = ctx.run_cli(["generate", "client-mod", "-i", p, "-o", os.path.join(d, "cm")] + flags)
                rd = lambda q: open(q, encoding="utf-8", errors="replace").read() if os.path.exists(q) else ""
                impl = {"rc_types": rc1, "rc_mod": rc2, "types": rd(os.path.join(d, "t.rs")), "mod_types": rd(os.path.join(d, "cm", "types.rs")), "stderr": (e1 + e2)[-300:]}
                kept = os.path.join(keptdir, "%s_%s.json" % (name, shape))
                json.dump(doc, open(kept, "w"))
                out.append({"op": "flags.cli", "in": {"spec_name": name, "shape": shape, "flags": flags, "spec_file": kept}, "impl": impl})
    return out


def run(ctx):
    ctx.translate(["flagsites"])
    proofs_ok, driver_ok = ctx.build_lean(["Oas3Model.Props.C18"])
    if proofs_ok:
        ctx.audit("Oas3Model.Props.C18")
        if not ctx.quick:
            ctx.leanchecker("Oas3Model.Props.C18")
    r = ctx.rng
    if driver_ok and ctx.build_harness(["k_gen"]):
        cases = []
        for name, spec in corpus_specs(ctx):
            small = name.startswith(("feat_", "rand_"))
            lat = LATTICE if not ctx.quick else [LATTICE[0]] + r.sample(LATTICE[1:], 3 if small else 7)
            if small and not ctx.quick:
                lat = [LATTICE[0]] + r.sample(LATTICE[1:], 11)
            for cfg in lat:
                for mode in ("client-mod", "types"):
                    cases.append({"op": "flags.pair", "in": {"spec_name": name, "spec": spec, "mode": mode, "cfg": cfg, "base_cfg": {},
                                                             "component_names": sorted((spec.get("components", {}).get("schemas", {}) or {}).keys())}})
        specs = {c["in"]["spec_name"]: c["in"]["spec"] for c in cases}
        ctx.prepare = lambda c: c
        B = 40
        for i in range(0, len(cases), B):
            res = ctx.evaluate(cases[i:i + B])
            # keep evidence small: the primary input is (spec name, mode, cfg)
            slim = [({"op": c["op"], "in": {k: v for k, v in c["in"].items() if k != "spec"}}, t, a) for c, t, a in res]
            ctx.classify(slim, shrink=False, tie="E")
            if len(ctx.violations) >= 3:
                break
    # E-cli: the REAL binary — `generate types` against the types.rs of `generate client-mod` under one flag setting
    # (the in-process runs above never pass through ui/commands/generate.rs, where the modes are told apart)
    if driver_ok and ctx.build_cli() and len(ctx.violations) < 3:
        ctx.judge_direct(cli_cases(ctx), tie="E-cli")
    return ctx.finish(
        checker_cmd="lake build Oas3Model.Props.C18 && #print axioms on every theorem" + ("" if ctx.quick else " && leanchecker"),
        trusted_base=vlib.TRUSTED_BASE + ["that the decorations named in Model/Flags.lean are ALL that may differ is measured by the lattice comparison, not proved about the generator", "syn extraction of items, fields, attributes, visibilities"],
        rule="every spec of the corpus (10 fixtures thorough / 3 quick + 2 generated) under the 3 x 2 x 2 x 2 x {types, client-mod} lattice of visibility / --no-helpers / --enable-builders / --all-headers (all 48 thorough; default + 7 sampled quick, x 2 modes) generated in-process next to the default client-mod run; judged: requested visibility on every item, field, inherent method and associated const; wire skeleton of every struct/enum/alias identical after erasing builder derive/attributes; only header constants, helper/builder methods and imports may be added or removed; non-trivial = non-default setting; distinct by (spec, mode, cfg)")
